(** C05 — Deletes hit only objects PKO controls, pinned to the inspected version.
    Statements only. Model: Phase.teardown_object / teardown_objects, Api.api_delete. *)
From Coq Require Import List NArith ZArith Bool.
From PKO Require Import Base Owner Api ApiProofs Phase PhaseProofs TeardownProofs.
Import ListNotations.

(** Every request of a teardown pass, for any world, any phase, both strategies and ANY third-party
    activity between the pass's uncached read and its write, is
    - a delete of an object the owner controlled in the version it inspected, carrying exactly that
      version's UID and resourceVersion, which takes effect only if the stored object still has that
      UID and resourceVersion (re-created or modified objects survive: Conflict / NotFound), or
    - the release patch of an object it co-owns without controlling, which relative to the stored
      version changes nothing but ownerReferences (its own reference removed), the cache label and
      the resourceVersion. Nothing else is ever sent. *)
Theorem C05_teardown_requests :
  forall c between ow ps w alldone w' evs r,
    teardown_objects c between w ow ps alldone = (w', evs, r) -> Forall (td_ev_local c ow ps) evs.
Proof. exact td_objs_events. Qed.
Print Assumptions C05_teardown_requests.

(** Effect of a delete in the API model: only on exactly the inspected uid and resourceVersion. *)
Theorem C05_delete_effect :
  forall w k uid rv w' r, api_delete w k uid rv = (w', r) ->
    match r with
    | DNotFound => lookup k (w_store w) = None /\ w' = w
    | DConflict => w' = w /\ exists cur, lookup k (w_store w) = Some cur /\ (o_uid cur <> uid \/ o_rv cur <> rv)
    | DOk => exists cur, lookup k (w_store w) = Some cur /\ o_uid cur = uid /\ o_rv cur = rv
    end.
Proof. exact api_delete_effect. Qed.
Print Assumptions C05_delete_effect.

(** Objects owned by others are not touched. *)
Theorem C05_foreign_untouched :
  forall c ow k o ps w alldone w' evs r,
    teardown_objects c idw w ow ps alldone = (w', evs, r) ->
    lookup k (w_store w) = Some o ->
    is_owner (flavor_strat (c_flavor c)) (ow_id ow) o = false ->
    is_controller (flavor_strat (c_flavor c)) (ow_id ow) o = false ->
    lookup k (w_store w') = Some o /\ Forall (fun e => ev_key e <> k) evs.
Proof. exact td_objs_foreign. Qed.
Print Assumptions C05_foreign_untouched.

(** Objects the phase does not list are not touched. *)
Theorem C05_unlisted_untouched :
  forall c ow k ps w alldone w' evs r,
    teardown_objects c idw w ow ps alldone = (w', evs, r) ->
    (forall p, In p ps -> key_of ow p <> k) -> lookup k (w_store w') = lookup k (w_store w).
Proof. exact td_objs_frame. Qed.
Print Assumptions C05_unlisted_untouched.

(** The request-level monitor evaluated on the implementation's teardown passes (coq/corr/C05Corr.v)
    accepts every teardown pass of the model, for every world, phase, owner, strategy and third-party
    activity between read and write. *)
From PKOCorr Require Import PhaseCorr C05Corr C05Sound.
Theorem C05_monitor_sound :
  forall c : pcase, pc_teardown c = true ->
    forallb (ev_okb (set_obs c (model_run c))) (pc_events (set_obs c (model_run c))) = true.
Proof. exact monitor_requests_sound. Qed.
Print Assumptions C05_monitor_sound.
