(** C06 — ObjectSet status never claims more than the reconcile pass observed. Statements only. *)
From Coq Require Import List NArith ZArith Bool.
From PKO Require Import Base Owner Api Phase PhaseProofs ObjectSet ObjectSetProofs.
Import ListNotations.

(** Available=True is newly written for generation G only by a pass that read generation G, in which
    every object of every local phase existed and passed the probes and every delegated phase's phase object,
    as read in this pass and controlled by this ObjectSet, carried Available=True for its own current
    generation; with a controllerOf list in which every entry was seen controlled by the ObjectSet or is
    reported by such a phase object, and which is complete for the local phases; every status.remotePhases entry
    is the stored one or names such a phase object with its uid. (For an ObjectSet without delegated phases this
    is the former statement.) *)
Theorem C06_available_true_justified :
  forall force sw k ns n mem0 sw' evs r rev conds ctrlof rem fph ok cd,
    find_set (sw_sets sw) k ns n = Some mem0 -> is_active mem0 ->
    objectset_pass force sw k ns n = (sw', evs, r) ->
    In (SMeta (MStatus rev conds ctrlof rem fph ok)) evs ->
    find_cond conds CAvailable = Some cd -> cd_status cd = STrue ->
    find_cond (os_conds mem0) CAvailable <> Some cd ->
    cd_gen cd = os_gen mem0 /\ fph = None /\
    (forall q, In q (local_phases mem0) -> phase_ok (sw_w sw') (as_owner mem0) q) /\
    (forall q, In q (delegated_phases mem0) -> exists cur, own_phase_read mem0 evs q cur /\ avail_current cur) /\
    (forall key, In key ctrlof -> seen_controlled (sw_w sw') (as_owner mem0) key \/ reported_by_phase mem0 (os_phases mem0) evs key) /\
    (forall x, In x rem -> In x (os_remotes mem0) \/
       exists q cur, In q (os_phases mem0) /\ ph_class q = true /\ own_phase_read mem0 evs q cur /\ x = (pobj_name mem0 q, oi_uid (op_id cur))) /\
    (forall key, In key (flat_map (phase_keys (as_owner mem0)) (local_phases mem0)) ->
                 seen_controlled (sw_w sw') (as_owner mem0) key -> In key ctrlof).
Proof. exact C06_available_true_justified_all. Qed.
Print Assumptions C06_available_true_justified.

(** Succeeded is set only while Available and not InTransition, and the status computation never
    withdraws it. *)
Theorem C06_succeeded_rule :
  forall phs m ctrlof failed,
    (cond_true (os_conds m) CSucceeded = true -> cond_true (os_conds (final_status phs m ctrlof failed)) CSucceeded = true) /\
    (cond_true (os_conds m) CSucceeded = false -> cond_true (os_conds (final_status phs m ctrlof failed)) CSucceeded = true ->
       failed = None /\ in_transition (set_ctrlof m ctrlof) ctrlof = false).
Proof. exact final_status_succeeded. Qed.
Print Assumptions C06_succeeded_rule.

(** Over whole Reconcile passes (finalizer handling, revision, phases, deletion, archival): if every
    stored copy of the ObjectSet had Succeeded=True before, every stored copy has it afterwards. *)
Theorem C06_succeeded_never_withdrawn :
  forall force k ns n sw0 sw' evs r,
    all_succ k ns n sw0 -> objectset_pass force sw0 k ns n = (sw', evs, r) -> all_succ k ns n sw'.
Proof. exact C06_succeeded_never_withdrawn. Qed.
Print Assumptions C06_succeeded_never_withdrawn.

(** InTransition is cleared only if every object of the spec is covered by the reported controllerOf: named
    by an entry, or named without a namespace by an entry of the same group, kind and name (the matching
    isObjectSetInTransition applies to references that come from (Cluster)ObjectSetPhase status). *)
Theorem C06_in_transition_cleared :
  forall phs m ctrlof failed,
    find_cond (os_conds (final_status phs m ctrlof failed)) CInTransition = None ->
    os_life m <> LArchived ->
    forall p, In p (all_objects m) -> covers ctrlof (spec_key (set_ctrlof m ctrlof) p).
Proof.
  exact (fun phs m ctrlof failed H Hl p Hp =>
           not_in_transition_all_controlled (set_ctrlof m ctrlof) ctrlof (final_status_in_transition phs m ctrlof failed H) Hl p Hp).
Qed.
Print Assumptions C06_in_transition_cleared.

(** Once archival has completed the ObjectSet is not reconciled again, and the request that reports
    Archived=True carries no Available condition and an empty controllerOf. *)
Theorem C06_archived_not_reconciled :
  forall force sw k ns n mem0,
    find_set (sw_sets sw) k ns n = Some mem0 -> cond_true (os_conds mem0) CArchived = true ->
    objectset_pass force sw k ns n = (sw, [], SNothing).
Proof. exact C06_archived_not_reconciled. Qed.
Print Assumptions C06_archived_not_reconciled.

Theorem C06_archival_status :
  forall force sw k ns n mem0 sw' evs r rev0 conds ctrlof rem fph ok,
    find_set (sw_sets sw) k ns n = Some mem0 -> is_going mem0 ->
    objectset_pass force sw k ns n = (sw', evs, r) ->
    In (SMeta (MStatus rev0 conds ctrlof rem fph ok)) evs ->
    find_cond conds CAvailable = None /\ (cond_true conds CArchived = true -> ctrlof = []).
Proof. exact C06_archival_status. Qed.
Print Assumptions C06_archival_status.

(** The controller-level monitor m06 (coq/corr/SetMonitors.v: archived short-circuit; Succeeded never withdrawn; no
    Available while deleting / archiving; Available=True, Succeeded=True and the clearing of InTransition only on what
    the pass observed). REFUTED as an acceptance claim over all cases: the monitor demands every listed key LITERALLY
    in status.controllerOf when InTransition is cleared, whereas the model (isObjectSetInTransition 337-352) lets a
    namespace-less reference reported by an ObjectSetPhase stand for a listed object of the same group, kind and name;
    on [x_nsless_case] (a delegated phase whose phase object reports its object without a namespace) the monitor raises
    a false alarm on the model itself. *)
From PKOCorr Require Import SetCorr SetMonitors SetMonSound SetMonSound2.
Theorem C06_set_monitor_refuted :
  exists c : scase, nsless_refs_literal c = false /\ m06 (set_obs_s c (SetCorr.model_run c)) = false.
Proof. exact m06_refuted. Qed.
Print Assumptions C06_set_monitor_refuted.

(** Partial (excluded: active ObjectSets with pairwise distinct local keys and a stored InTransition condition for which
    the stored phase object of one of the delegated phases reports, in status.controllerOf, a namespace-less key that
    shares group/kind and name with a DIFFERENT listed key): otherwise the monitor accepts every pass of the model. No
    uniqueness of the stored ObjectSets is assumed. *)
Theorem C06_set_monitor_sound_partial :
  forall c : scase, nsless_refs_literal c = true -> m06 (set_obs_s c (SetCorr.model_run c)) = true.
Proof. exact m06_sound_partial. Qed.
Print Assumptions C06_set_monitor_sound_partial.

Example C06_set_monitor_hypothesis_satisfiable :
  nsless_refs_literal x_nsfull_case = true /\
  map (fun s => let '(cs, co, _, _) := s in (find_cond cs CInTransition, co)) (statuses (set_obs_s x_nsfull_case (SetCorr.model_run x_nsfull_case)))
  = [(None, [x_key 1 1])].
Proof. exact m06_hypothesis_satisfiable. Qed.
Print Assumptions C06_set_monitor_hypothesis_satisfiable.

(** The delegated part of the C06 check (m06d = C15Corr.m_relay && C15Corr.m_own: Available=True newly reported only
    from phase objects obtained in this pass that are Available for their own generation, controlled by the ObjectSet
    and carrying the phase's objects). REFUTED as an acceptance claim over all cases: the model - like
    remotePhase.Reconcile - does not compare the spec of an EXISTING phase object with the phase; on
    [x_other_objects_case] (a phase object controlled by the ObjectSet that lists another object and reports Available)
    it relays Available=True and the ownership clause raises an alarm on the model itself. *)
Theorem C06_set_monitor_delegated_refuted :
  exists c : scase, phase_objects_carried c = false /\ m06d (set_obs_s c (SetCorr.model_run c)) = false.
Proof. exact m06d_refuted. Qed.
Print Assumptions C06_set_monitor_delegated_refuted.

(** Partial (excluded: a stored phase object of a delegated phase of an active ObjectSet that is controlled by the
    ObjectSet but whose spec.objects differ from the phase): otherwise the monitor accepts every pass of the model; its
    relay clause (m_relay) does so without any hypothesis. *)
Theorem C06_set_monitor_delegated_sound_partial :
  forall c : scase, phase_objects_carried c = true -> m06d (set_obs_s c (SetCorr.model_run c)) = true.
Proof. exact m06d_sound_partial. Qed.
Print Assumptions C06_set_monitor_delegated_sound_partial.

Theorem C06_set_monitor_relay_sound :
  forall c : scase, C15Corr.m_relay (as_dobs (set_obs_s c (SetCorr.model_run c))) = true.
Proof. exact m_relay_sound. Qed.
Print Assumptions C06_set_monitor_relay_sound.

Example C06_set_monitor_delegated_hypothesis_satisfiable :
  phase_objects_carried x_carried_case = true /\
  map (fun s => let '(cs, _, _, _) := s in cond_true cs CAvailable) (statuses (set_obs_s x_carried_case (SetCorr.model_run x_carried_case))) = [true].
Proof. exact m06d_hypothesis_satisfiable. Qed.
Print Assumptions C06_set_monitor_delegated_hypothesis_satisfiable.
