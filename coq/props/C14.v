(** C14 (ObjectSlices are a transparent, lossless encoding): property theorems.
    This file contains statements only; every proof is `exact <lemma>`. *)
From Coq Require Import List NArith Lia.
From PKO Require Import Chunk ChunkProofs.
From PKOCorr Require Import C14Corr.
Import ListNotations.
Local Open Scope N_scope.

(** BinpackNextFit, any element type, any size function with positive sizes, any limit:
    a non-bypass result concatenates to the input in order, has no empty slice, every
    slice is within the limit or a single object, there are at least two slices, and the
    phase did not fit one slice. *)
Theorem C14_binpack_lossless :
  forall (A : Type) (size : A -> N) (limit : N), (forall x, 0 < size x) ->
  forall xs cs, binpack size limit xs = Some cs ->
    concat cs = xs /\ Forall (chunk_ok size limit) cs /\ (2 <= length cs)%nat /\ limit < total size xs.
Proof. exact @binpack_some_laws. Qed.
Print Assumptions C14_binpack_lossless.

(** Bypass (objects stay inline) exactly when there is at most one object or all fit. *)
Theorem C14_binpack_bypass_iff :
  forall (A : Type) (size : A -> N) (limit : N), (forall x, 0 < size x) ->
  forall xs, binpack size limit xs = None <-> ((length xs <= 1)%nat \/ total size xs <= limit).
Proof. exact @binpack_none_iff. Qed.
Print Assumptions C14_binpack_bypass_iff.

(** EachObject: lossless, one object per slice. *)
Theorem C14_each_lossless :
  forall (A : Type) (xs : list A),
    concat (each_object xs) = xs /\ Forall (fun c => length c = 1%nat) (each_object xs).
Proof. exact (fun A xs => conj (each_concat xs) (each_singletons xs)). Qed.
Print Assumptions C14_each_lossless.

(** The run-time monitor used on the implementation's output accepts every output of the model. *)
Theorem C14_monitor_sound :
  forall bp limit sizes, (forall i, 0 < size_of sizes i) ->
    monitor (bp, limit, sizes, model bp limit sizes) = true.
Proof. exact monitor_sound. Qed.
Print Assumptions C14_monitor_sound.
