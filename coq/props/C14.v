(** C14 (ObjectSlices are a transparent, lossless encoding): property theorems.
    This file contains statements only; every proof is `exact <lemma>`. *)
From Coq Require Import List NArith Lia.
From Coq Require Import ZArith Bool.
From PKO Require Import Util Base Owner Api Phase ObjectSet ObjectSetProofs Chunk ChunkProofs Slices SlicesProofs.
From PKOCorr Require Import PhaseCorr SetCorr C14Corr C14SliceCorr.
Import ListNotations.
Local Open Scope N_scope.

(** BinpackNextFit, any element type, any size function with positive sizes, any limit:
    a non-bypass result concatenates to the input in order, has no empty slice, every
    slice is within the limit or a single object, there are at least two slices, and the
    phase did not fit one slice. *)
Theorem C14_binpack_lossless :
  forall (A : Type) (size : A -> N) (limit : N), (forall x, 0 < size x) ->
  forall xs cs, binpack size limit xs = Some cs ->
    concat cs = xs /\ Forall (chunk_ok size limit) cs /\ (2 <= length cs)%nat /\ limit < total size xs.
Proof. exact @binpack_some_laws. Qed.
Print Assumptions C14_binpack_lossless.

(** Bypass (objects stay inline) exactly when there is at most one object or all fit. *)
Theorem C14_binpack_bypass_iff :
  forall (A : Type) (size : A -> N) (limit : N), (forall x, 0 < size x) ->
  forall xs, binpack size limit xs = None <-> ((length xs <= 1)%nat \/ total size xs <= limit).
Proof. exact @binpack_none_iff. Qed.
Print Assumptions C14_binpack_bypass_iff.

(** EachObject: lossless, one object per slice. *)
Theorem C14_each_lossless :
  forall (A : Type) (xs : list A),
    concat (each_object xs) = xs /\ Forall (fun c => length c = 1%nat) (each_object xs).
Proof. exact (fun A xs => conj (each_concat xs) (each_singletons xs)). Qed.
Print Assumptions C14_each_lossless.

(** The run-time monitor used on the implementation's output accepts every output of the model. *)
Theorem C14_monitor_sound :
  forall bp limit sizes, (forall i, 0 < size_of sizes i) ->
    monitor (bp, limit, sizes, model bp limit sizes) = true.
Proof. exact monitor_sound. Qed.
Print Assumptions C14_monitor_sound.

(** * Clause 2: slice names *)

(** reconcileSlice / reconcileSliceWithCollisionCount, for EVERY hash function (collisions included), every
    content type with a decidable equality and every store of existing slices: the name returned is the
    function of content and collision count; the slice under that name afterwards holds exactly the requested
    content and is controlled by the deployment; a name that was held by other content or by a foreign
    controller is never the one returned; a slice is created exactly when the name was free; no existing
    slice is modified; every smaller collision count was a genuine clash. *)
Theorem C14_slice_names :
  forall (C : Type) (ceqb : C -> C -> bool), (forall x y, ceqb x y = true <-> x = y) ->
  forall (hash : C -> N -> N) (st : nstore C) (c : C) st' n cc cr,
    reconcile_slice ceqb hash st c = (st', NUsed n cc cr) ->
    n = slice_name hash c cc /\
    nlookup n st' = Some {| es_content := c; es_ctrl := true |} /\
    (forall e, nlookup n st = Some e -> es_content e = c /\ es_ctrl e = true) /\
    (cr = true <-> nlookup n st = None) /\
    (forall m e, nlookup m st = Some e -> nlookup m st' = Some e) /\
    (forall k, k < cc -> exists e, nlookup (slice_name hash c k) st = Some e /\ (es_content e <> c \/ es_ctrl e = false)).
Proof. exact @slice_names. Qed.
Print Assumptions C14_slice_names.

(** The loop needs at most |existing slices|+1 attempts if the hash separates the collision counts of the content. *)
Theorem C14_slice_loop_terminates :
  forall (C : Type) (ceqb : C -> C -> bool) (hash : C -> N -> N) (st : nstore C) (c : C),
    (forall a b, hash c a = hash c b -> a = b) -> snd (reconcile_slice ceqb hash st c) <> NFuel.
Proof. exact @slice_fuel_suffices. Qed.
Print Assumptions C14_slice_loop_terminates.

(** chunkPhase: every chunk ends up, in order, in a slice holding exactly its content and controlled by the
    deployment (hence equal names mean equal content); existing slices are left alone. *)
Theorem C14_chunk_phase_names :
  forall (C : Type) (ceqb : C -> C -> bool), (forall x y, ceqb x y = true <-> x = y) ->
  forall (hash : C -> N -> N) chunks (st st' : nstore C) l,
    chunk_phase ceqb hash st chunks = (st', Some l) ->
    length l = length chunks /\
    Forall2 (fun c x => let '(n, cc, _) := x in
                        n = slice_name hash c cc /\ nlookup n st' = Some {| es_content := c; es_ctrl := true |}) chunks l /\
    (forall m e, nlookup m st = Some e -> nlookup m st' = Some e).
Proof. exact @chunk_phase_names. Qed.
Print Assumptions C14_chunk_phase_names.

(** A whole package update (every phase of the template, any slices left over from earlier revisions, any hash):
    the slice names written into the template decode, phase by phase and in order, to exactly the chunks; slices
    that existed before are not modified. Together with the chunk laws: concat of the referenced slices = the
    phase's objects, for every history of updates. *)
Theorem C14_update_lossless :
  forall (C : Type) (ceqb : C -> C -> bool), (forall x y, ceqb x y = true <-> x = y) ->
  forall (hash : C -> N -> N) phases (st st' : nstore C) ls,
    chunk_phases ceqb hash st phases = (st', Some ls) ->
    map (map (fun x => content_of st' (fst (fst x)))) ls = map (map Some) phases /\
    (forall m e, nlookup m st = Some e -> nlookup m st' = Some e).
Proof. exact @chunk_phases_lossless. Qed.
Print Assumptions C14_update_lossless.

Theorem C14_update_monitor_sound :
  forall table st phases st' ls (c : gcase),
    chunk_phases N.eqb (tbl_hash table) st phases = (st', Some ls) ->
    gc_want c = phases -> gc_got c = got_of st' ls -> hmonitor c = true.
Proof. exact hmonitor_sound. Qed.
Print Assumptions C14_update_monitor_sound.

(** Redeploying the unchanged package (same phases, same chunks) after a deploy, for every hash function and
    whatever slices existed before: every chunk is found under the name it got the first time, nothing is created
    and the store is unchanged ("slice names are determined by content"). *)
Theorem C14_redeploy_unchanged :
  forall (C : Type) (ceqb : C -> C -> bool), (forall x y, ceqb x y = true <-> x = y) ->
  forall (hash : C -> N -> N) phases (st st1 : nstore C) ls,
    chunk_phases ceqb hash st phases = (st1, Some ls) ->
    chunk_phases ceqb hash st1 phases = (st1, Some (map (@reused) ls)).
Proof. exact @redeploy_unchanged. Qed.
Print Assumptions C14_redeploy_unchanged.

Theorem C14_redeploy_monitor_sound :
  forall table st phases st1 ls,
    chunk_phases N.eqb (tbl_hash table) st phases = (st1, Some ls) ->
    exists ls2, chunk_phases N.eqb (tbl_hash table) st1 phases = (st1, Some ls2) /\
      forall c : gcase, gc_tmpl c = names_of ls2 -> gc_prev c = names_of ls -> gc_created c = created_of ls2 -> rmonitor c = true.
Proof. exact rmonitor_sound. Qed.
Print Assumptions C14_redeploy_monitor_sound.

Example C14_slice_names_satisfiable :
  reconcile_slice N.eqb (fun c cc => c + cc) [(5, {| es_content := 4; es_ctrl := true |}); (6, {| es_content := 5; es_ctrl := false |})] 5
  = ([(7, {| es_content := 5; es_ctrl := true |}); (5, {| es_content := 4; es_ctrl := true |}); (6, {| es_content := 5; es_ctrl := false |})],
     NUsed 7 2 true).
Proof. reflexivity. Qed.

Theorem C14_names_monitor_sound :
  forall table pre chunks st l,
    chunk_phase N.eqb (tbl_hash table) pre chunks = (st, Some l) ->
    nmonitor {| nc_table := table; nc_pre := pre; nc_chunks := chunks; nc_err := false;
                nc_out := map (fun x => (fst (fst x), snd x)) l; nc_post := st |} = true.
Proof. exact nmonitor_sound. Qed.
Print Assumptions C14_names_monitor_sound.

(** * Clause 4: slice garbage collection *)

(** For all templates, ObjectSets and slices: a deleted slice is referenced neither by the template just
    written nor by any listed ObjectSet. *)
Theorem C14_gc_safe :
  forall tmpl sets slices n,
    In n (slice_gc tmpl sets slices) ->
    (forall ph, In ph tmpl -> ~ In n ph) /\
    (forall s ph, In s sets -> g_listed s = true -> In ph (g_refs s) -> ~ In n ph).
Proof. exact gc_safe. Qed.
Print Assumptions C14_gc_safe.

(** A referenced slice is never deleted; exactly the labelled unreferenced ones are. *)
Theorem C14_gc_exact :
  forall tmpl sets slices n,
    In n (slice_gc tmpl sets slices) <->
    exists s, In s slices /\ gs_name s = n /\ gs_labelled s = true /\ ~ In n (gc_referenced tmpl sets).
Proof. exact slice_gc_spec. Qed.
Print Assumptions C14_gc_exact.

Example C14_gc_satisfiable :
  slice_gc [[1]] [{| g_listed := true; g_refs := [[2]] |}; {| g_listed := false; g_refs := [[3]] |}]
           [{| gs_name := 1; gs_labelled := true |}; {| gs_name := 2; gs_labelled := true |};
            {| gs_name := 3; gs_labelled := true |}; {| gs_name := 4; gs_labelled := false |}] = [3].
Proof. reflexivity. Qed.

Theorem C14_gc_monitor_sound :
  forall c : gcase,
    gc_deleted c = slice_gc (gc_tmpl c) (gc_sets c) (gc_slices c) -> gwf c = true -> gmonitor c = true.
Proof. exact gmonitor_sound. Qed.
Print Assumptions C14_gc_monitor_sound.

(** * Clause 3: an ObjectSet that references slices behaves like the same ObjectSet with the objects inline *)

(** The slice loader: if every referenced slice exists, each phase is handed to the phase reconciler with its
    inline objects followed by the contents of its slices in order; the loader changes nothing but owner
    references (and resourceVersions) of slices. *)
Theorem C14_load_slices_concat :
  forall ns id sphs xs,
    sphases_exist (xs_store xs) ns sphs ->
    exists xs' evs,
      load_slices xs ns id sphs = (xs', evs, Some (map (inline_phase (xs_store xs) ns) sphs)) /\
      objs_same (xs_store xs) (xs_store xs') /\ erase_slice_events evs = [].
Proof. exact load_slices_concat. Qed.
Print Assumptions C14_load_slices_concat.

(** Chunk (Chunk.v), store the chunks as slices, load: the phase's object list comes back unchanged. *)
Theorem C14_binpack_then_load_identity :
  forall st ns (size : pobj -> N) limit objs chunks names nm cl,
    (forall x, 0 < size x) ->
    binpack size limit objs = Some chunks ->
    map (slice_objects st ns) names = chunks ->
    ph_objects (inline_phase st ns {| sp_name := nm; sp_class := cl; sp_objects := []; sp_slices := names |}) = objs.
Proof. exact binpack_then_load_identity. Qed.
Print Assumptions C14_binpack_then_load_identity.

Theorem C14_each_then_load_identity :
  forall st ns (objs : list pobj) names nm cl,
    map (slice_objects st ns) names = each_object objs ->
    ph_objects (inline_phase st ns {| sp_name := nm; sp_class := cl; sp_objects := []; sp_slices := names |}) = objs.
Proof. exact each_then_load_identity. Qed.
Print Assumptions C14_each_then_load_identity.

(** All statements below hold for mixed phase lists (in-process and delegated phases, arbitrary ObjectSetPhase
    objects and namespaces in the world): the slices of a delegated phase are inlined into the desired phase object.

    sliced_equiv_active. For every world, every ObjectSet that is neither deleted nor archived and whose
    referenced slices exist: one Reconcile pass on the sliced ObjectSet issues exactly the requests of the
    pass on the ObjectSet with the objects inline (member requests, finalizer, status with revision,
    conditions, controllerOf), interleaved with owner-reference updates of slices, returns the same result
    and ends in the corresponding world. *)
Theorem C14_sliced_equiv_active :
  forall force x kind ns name mem x' evs r,
    find_set (sw_sets (xw_sw x)) kind ns name = Some mem ->
    is_going mem = false ->
    slices_exist (xs_store (xw_sl x)) (xw_refs x) mem = true ->
    sliced_pass force x kind ns name = (x', evs, r) ->
    objectset_pass force (inline_of x) kind ns name = (inline_of x', erase_slice_events evs, r) /\
    xw_refs x' = xw_refs x /\ objs_same (xs_store (xw_sl x)) (xs_store (xw_sl x')).
Proof. exact sliced_equiv_active. Qed.
Print Assumptions C14_sliced_equiv_active.

(** sliced_equiv_teardown is REFUTED for the controller as it is (F-C14): handleDeletionAndArchival runs before
    the slice loader. Deletion: the inline ObjectSet deletes its object, the sliced one removes its finalizer
    and is gone without any member request ... *)
Theorem C14_sliced_teardown_refuted :
  exists x kind ns name mem,
    find_set (sw_sets (xw_sw x)) kind ns name = Some mem /\ os_deleting mem = true /\
    slices_exist (xs_store (xw_sl x)) (xw_refs x) mem = true /\
    has_delete (ipass_events (objectset_pass false (inline_of x) kind ns name)) = true /\
    no_member (pass_events (sliced_pass false x kind ns name)) = true /\
    finalizer_removed (pass_events (sliced_pass false x kind ns name)) = true /\
    find_set (sw_sets (xw_sw (fst (fst (sliced_pass false x kind ns name))))) kind ns name = None.
Proof. exact sliced_teardown_refuted. Qed.
Print Assumptions C14_sliced_teardown_refuted.

(** ... archival: the sliced one reports Archived=True, the object stays, and no later pass touches it. *)
Theorem C14_sliced_archival_refuted :
  exists x kind ns name mem,
    find_set (sw_sets (xw_sw x)) kind ns name = Some mem /\ os_life mem = LArchived /\
    slices_exist (xs_store (xw_sl x)) (xw_refs x) mem = true /\
    has_delete (ipass_events (objectset_pass false (inline_of x) kind ns name)) = true /\
    no_member (pass_events (sliced_pass false x kind ns name)) = true /\
    archived_reported (pass_events (sliced_pass false x kind ns name)) = true /\
    (let x' := fst (fst (sliced_pass false x kind ns name)) in
     lookup {| k_gk := 1; k_ns := 1; k_name := 1 |} (w_store (sw_w (xw_sw x'))) <> None /\
     sliced_pass false x' kind ns name = (x', [], SNothing)).
Proof. exact sliced_archival_refuted. Qed.
Print Assumptions C14_sliced_archival_refuted.

(** The strongest true variant for the controller as it is: a deleted / archived sliced ObjectSet is torn down
    exactly like the ObjectSet AS STORED, i.e. like its inline part; no slice is read or written.
    Missing: every object that lives in a slice. *)
Theorem C14_sliced_equiv_teardown_partial :
  forall force x kind ns name mem x' evs r,
    find_set (sw_sets (xw_sw x)) kind ns name = Some mem ->
    is_going mem = true ->
    sliced_pass force x kind ns name = (x', evs, r) ->
    objectset_pass force (xw_sw x) kind ns name = (xw_sw x', erase_slice_events evs, r) /\
    xw_refs x' = xw_refs x /\ xw_sl x' = xw_sl x /\ slice_events evs = [].
Proof. exact sliced_equiv_teardown_partial. Qed.
Print Assumptions C14_sliced_equiv_teardown_partial.

(** ... so it agrees with the inline ObjectSet exactly when the slices contribute no objects. *)
Theorem C14_sliced_equiv_teardown_no_slice_objects_partial :
  forall force x kind ns name mem x' evs r,
    find_set (sw_sets (xw_sw x)) kind ns name = Some mem ->
    is_going mem = true ->
    inline_phases (xs_store (xw_sl x)) (xw_refs x) mem = os_phases mem ->
    sliced_pass force x kind ns name = (x', evs, r) ->
    objectset_pass force (inline_of x) kind ns name = (inline_of x', erase_slice_events evs, r).
Proof. exact sliced_equiv_teardown_no_slice_objects. Qed.
Print Assumptions C14_sliced_equiv_teardown_no_slice_objects_partial.

(** The repair (slices loaded before teardown as well, fixes/C14-load-slices-before-teardown.diff): the
    equivalence holds in FULL, in every lifecycle state. *)
Theorem C14_sliced_fixed_equiv :
  forall force x kind ns name mem x' evs r,
    find_set (sw_sets (xw_sw x)) kind ns name = Some mem ->
    slices_exist (xs_store (xw_sl x)) (xw_refs x) mem = true ->
    sliced_pass_fixed force x kind ns name = (x', evs, r) ->
    objectset_pass force (inline_of x) kind ns name = (inline_of x', erase_slice_events evs, r) /\
    xw_refs x' = xw_refs x /\ objs_same (xs_store (xw_sl x)) (xs_store (xw_sl x')).
Proof. exact sliced_fixed_equiv. Qed.
Print Assumptions C14_sliced_fixed_equiv.

(** The hypotheses are satisfiable: the witness world with an active ObjectSet; the sliced pass adopts nothing
    new, re-applies the object of the slice and reports Available. *)
Example C14_sliced_equiv_satisfiable :
  find_set (sw_sets (xw_sw (wit_world false LActive))) 1 1 10 = Some (wit_set false LActive) /\
  is_going (wit_set false LActive) = false /\
  slices_exist (xs_store (xw_sl (wit_world false LActive))) (xw_refs (wit_world false LActive)) (wit_set false LActive) = true /\
  negb (no_member (pass_events (sliced_pass false (wit_world false LActive) 1 1 10))) = true.
Proof. vm_compute. repeat split. Qed.

(** The run-time monitor (sliced observation = inline observation after erasing slice requests) accepts every
    pass of the repaired wrapper, and every pass of the present one on ObjectSets that are not being torn down;
    it rejects the witness. *)
Theorem C14_sliced_monitor_sound_fixed :
  forall force x kind ns name,
    xmonitor (xcase_of true force x kind ns name (sliced_pass_fixed force x kind ns name)
                       (objectset_pass force (inline_of x) kind ns name)) = true.
Proof. exact xmonitor_sound_fixed. Qed.
Print Assumptions C14_sliced_monitor_sound_fixed.

Theorem C14_sliced_monitor_sound_active :
  forall force x kind ns name,
    xgoing (xcase_of false force x kind ns name (sliced_pass force x kind ns name)
                     (objectset_pass force (inline_of x) kind ns name)) = false ->
    xmonitor (xcase_of false force x kind ns name (sliced_pass force x kind ns name)
                       (objectset_pass force (inline_of x) kind ns name)) = true.
Proof. exact xmonitor_sound_active. Qed.
Print Assumptions C14_sliced_monitor_sound_active.

Theorem C14_sliced_monitor_rejects_witness :
  xmonitor (xcase_of false false (wit_world true LActive) 1 1 10 (sliced_pass false (wit_world true LActive) 1 1 10)
                     (objectset_pass false (inline_of (wit_world true LActive)) 1 1 10)) = false.
Proof. exact xmonitor_witness. Qed.
Print Assumptions C14_sliced_monitor_rejects_witness.

(** * A referenced slice that cannot be loaded *)

(** Active path: an ObjectSet that is neither deleted nor archived and references a slice that does not exist
    (not created yet, deleted by a third party). For every world: the pass writes no member object and no
    ObjectSetPhase object (status_keeps admits only finalizer requests, reads of phase objects and status requests),
    every status request carries the stored Available / Succeeded conditions unchanged or Available=False, and the
    member objects and phase objects are as before. *)
Theorem C14_missing_slice_no_rollout :
  forall force x kind ns name mem x' evs r,
    find_set (sw_sets (xw_sw x)) kind ns name = Some mem ->
    is_going mem = false ->
    slices_exist (xs_store (xw_sl x)) (xw_refs x) mem = false ->
    sliced_pass force x kind ns name = (x', evs, r) ->
    Forall (status_keeps mem) (erase_slice_events evs) /\
    w_store (sw_w (xw_sw x')) = w_store (sw_w (xw_sw x)) /\ sw_phases (xw_sw x') = sw_phases (xw_sw x).
Proof. exact sliced_missing_slice_no_rollout. Qed.
Print Assumptions C14_missing_slice_no_rollout.

(** The same for the repaired wrapper (with or without a scripted read fault; the active path reads no fault). *)
Theorem C14_missing_slice_no_rollout_fixed :
  forall force fault x kind ns name mem x' evs r,
    find_set (sw_sets (xw_sw x)) kind ns name = Some mem ->
    is_going mem = false ->
    slices_exist (xs_store (xw_sl x)) (xw_refs x) mem = false ->
    sliced_pass_faulty force fault x kind ns name = (x', evs, r) ->
    Forall (status_keeps mem) (erase_slice_events evs) /\
    w_store (sw_w (xw_sw x')) = w_store (sw_w (xw_sw x)) /\ sw_phases (xw_sw x') = sw_phases (xw_sw x).
Proof. exact sliced_missing_slice_no_rollout_fixed. Qed.
Print Assumptions C14_missing_slice_no_rollout_fixed.

(** Teardown path (repaired controller): a read of a referenced slice that fails with anything but NotFound
    (timeout, 5xx, transport error) while a deleted / archived ObjectSet carrying the finalizer is torn down makes
    the pass inert: no request at all - no member delete, the finalizer stays, Archived=True is not reported -
    the world is unchanged and the pass ends with an error. Without a failing read the wrapper is
    sliced_pass_fixed. *)
Theorem C14_teardown_read_fault_inert :
  forall force i x kind ns name mem,
    find_set (sw_sets (xw_sw x)) kind ns name = Some mem ->
    is_going mem = true -> os_fin mem = true ->
    (i < slice_reads (set_sphases (xw_refs x) mem))%nat ->
    sliced_pass_faulty force (Some i) x kind ns name = (x, [], SError).
Proof. exact teardown_read_fault_inert. Qed.
Print Assumptions C14_teardown_read_fault_inert.

Theorem C14_no_fault_is_fixed :
  forall force x kind ns name, sliced_pass_faulty force None x kind ns name = sliced_pass_fixed force x kind ns name.
Proof. exact sliced_pass_faulty_none. Qed.
Print Assumptions C14_no_fault_is_fixed.

Example C14_read_fault_satisfiable :
  sliced_pass_faulty false (Some 0%nat) (wit_world true LActive) 1 1 10 = (wit_world true LActive, [], SError) /\
  has_delete (pass_events (sliced_pass_faulty false None (wit_world true LActive) 1 1 10)) = true.
Proof. vm_compute. split; reflexivity. Qed.

(** The run-time monitors for the two clauses accept every pass of the models. *)
Theorem C14_missing_monitor_sound :
  forall force x kind ns name il,
    mmonitor (xcase_of_f None false force x kind ns name (sliced_pass force x kind ns name) il) = true.
Proof. exact mmonitor_sound. Qed.
Print Assumptions C14_missing_monitor_sound.

Theorem C14_missing_monitor_sound_fixed :
  forall force fault x kind ns name il,
    mmonitor (xcase_of_f fault true force x kind ns name
                         (sliced_pass_faulty force (option_map N.to_nat fault) x kind ns name) il) = true.
Proof. exact mmonitor_sound_fixed. Qed.
Print Assumptions C14_missing_monitor_sound_fixed.

Theorem C14_read_fault_monitor_sound :
  forall force fault x kind ns name il,
    fmonitor (xcase_of_f fault true force x kind ns name
                         (sliced_pass_faulty force (option_map N.to_nat fault) x kind ns name) il) = true.
Proof. exact fmonitor_sound. Qed.
Print Assumptions C14_read_fault_monitor_sound.

(** * Teardown with slices that are gone (repaired controller) *)

(** What the teardown handler loads for a phase: the inline objects, then the objects of the referenced slices that
    exist, in the order they are listed; a slice that does not exist contributes nothing and does not stop the loop. *)
Theorem C14_teardown_loads_existing_slices :
  forall st ns sp,
    ph_objects (inline_phase st ns sp) = sp_objects sp ++ flat_map sl_objects (existing_slices st ns (sp_slices sp)).
Proof. exact inline_phase_existing. Qed.
Print Assumptions C14_teardown_loads_existing_slices.

(** Hence a deleted / archived ObjectSet is torn down exactly like the inline ObjectSet that carries the objects of
    the slices that exist - with NO hypothesis on the existence of slices (compare C14_sliced_fixed_equiv). *)
Theorem C14_sliced_fixed_equiv_teardown :
  forall force x kind ns name mem x' evs r,
    find_set (sw_sets (xw_sw x)) kind ns name = Some mem ->
    is_going mem = true ->
    sliced_pass_fixed force x kind ns name = (x', evs, r) ->
    objectset_pass force (inline_of x) kind ns name = (inline_of x', erase_slice_events evs, r) /\
    xw_refs x' = xw_refs x /\ xw_sl x' = xw_sl x.
Proof. exact sliced_fixed_equiv_teardown. Qed.
Print Assumptions C14_sliced_fixed_equiv_teardown.

(** * The ObjectDeployment controller's view of a sliced revision *)

(** getObjectsIncludingSlices: if every referenced slice exists, the archive reconciler sees exactly the objects
    (identifiers with the namespace defaulted to the ObjectSet's) of the ObjectSet with the slices inlined. *)
Theorem C14_deploy_objects_inline :
  forall st t s l,
    deploy_objects st t s = Some l ->
    Permutation.Permutation l (map (spec_key (inline_set st t s)) (all_objects (inline_set st t s))).
Proof. exact deploy_objects_inline. Qed.
Print Assumptions C14_deploy_objects_inline.

(** ... and if a referenced slice does not exist there is no view at all. *)
Theorem C14_deploy_objects_none :
  forall st t s, deploy_objects st t s = None <-> slices_exist st t s = false.
Proof. exact deploy_objects_none. Qed.
Print Assumptions C14_deploy_objects_none.

Theorem C14_deploy_objects_monitor_sound :
  forall s refs slices,
    let t := [(oi_kind (os_id s), oi_ns (os_id s), oi_name (os_id s), refs)] in
    omonitor {| oc_set := s; oc_refs := refs; oc_slices := slices;
                oc_err := match deploy_objects slices t s with Some _ => false | None => true end;
                oc_keys := match deploy_objects slices t s with Some l => l | None => [] end;
                oc_inline := map (spec_key (inline_set slices t s)) (all_objects (inline_set slices t s)) |} = true.
Proof. exact omonitor_sound. Qed.
Print Assumptions C14_deploy_objects_monitor_sound.
