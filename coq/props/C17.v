(** C17 (Availability probing is a pure conjunction over selected, up-to-date status):
    property theorems. Statements only; every proof is `exact <lemma>`.

    Everything is stated for all CEL oracles ([cel_compile] = what NewCELProbe says about a
    rule, [cel_eval] = what the compiled program returns on an object), all lists of
    ObjectSetProbes and all JSON objects (no well-formedness assumed unless stated).

    Purity: in the model a prober is a function [json -> bool * list reason]; the object is
    not part of the result, so "probing does not change the object" holds by construction and
    there is nothing to prove. On the Go side the harness compares the probed deep copy with
    the original after every Probe call. *)
From Coq Require Import List ZArith NArith Bool String Permutation.
From PKO Require Import Util Json Probe ProbeProofs.
From PKOCorr Require Import C17Corr.
Import ListNotations.
Local Open Scope string_scope.
Local Open Scope list_scope.

(** An object passes the prober built by Parse iff every ObjectSetProbe whose kind and label
    selector match it passes. *)
Theorem C17_probe_conj :
  forall cel_compile cel_eval (qs : list osp) (p : prober) (o : json),
    parse cel_compile cel_eval qs = inr p ->
    (fst (p o) = true <-> forall q, In q qs -> selects q o = true -> passes_one cel_eval q o = true).
Proof. exact probe_conj. Qed.
Print Assumptions C17_probe_conj.

(** Objects matched by no probe pass (and nothing is reported). *)
Theorem C17_unselected_pass :
  forall cel_compile cel_eval (qs : list osp) (p : prober) (o : json),
    parse cel_compile cel_eval qs = inr p -> (forall q, In q qs -> selects q o = false) -> p o = (true, []).
Proof. exact unselected_pass. Qed.
Print Assumptions C17_unselected_pass.

(** All failing probes are reported: the messages are exactly the messages of the selected
    failing ObjectSetProbes, in list order ... *)
Theorem C17_all_failures_reported :
  forall cel_compile cel_eval (qs : list osp) (p : prober) (o : json),
    parse cel_compile cel_eval qs = inr p ->
    snd (p o) = flat_map (fun q => if selects q o && negb (passes_one cel_eval q o)
                                   then messages_one cel_eval q o else []) qs.
Proof. exact all_failures_reported. Qed.
Print Assumptions C17_all_failures_reported.

(** ... and they are the second components of the index-tagged failure list. *)
Theorem C17_failures_indexed :
  forall cel_compile cel_eval (qs : list osp) (p : prober) (o : json),
    parse cel_compile cel_eval qs = inr p -> snd (p o) = map snd (failures cel_eval qs o).
Proof. exact failures_indexed. Qed.
Print Assumptions C17_failures_indexed.

(** Object-wide staleness: for an object selected by some probe, an integer
    status.observedGeneration different from metadata.generation never passes. No condition
    on the inner probe list is needed (it may be empty). *)
Theorem C17_stale_never_passes :
  forall cel_compile cel_eval (qs : list osp) (p : prober) (q : osp) (o : json),
    parse cel_compile cel_eval qs = inr p -> In q qs -> selects q o = true -> og_stale o = true ->
    fst (p o) = false /\ In RStatusOutdated (snd (p o)).
Proof. exact stale_never_passes. Qed.
Print Assumptions C17_stale_never_passes.

(** Per-condition staleness, in full: for a selected object and a condition probe of type [t],
    ANY entry of status.conditions of type [t] that declares an integer observedGeneration
    different from metadata.generation makes the object fail. No distinctness of condition
    types is assumed. *)
Theorem C17_stale_condition_never_passes :
  forall cel_compile cel_eval (qs : list osp) (p : prober) (q : osp) (o : json) t s cs,
    parse cel_compile cel_eval qs = inr p -> In q qs -> selects q o = true ->
    In (LCond t s) (leaves (o_probes q)) ->
    conditions_of o = Some cs ->
    existsb (stale_entry (generation o) t) cs = true ->
    fst (p o) = false.
Proof. exact stale_condition_never_passes. Qed.
Print Assumptions C17_stale_condition_never_passes.

(** History (defect fixed by 9b2e4f3): the condition probe as it was before the fix
    ([condition_probe_v0], first entry of the probed type decides) let an object pass although a
    later entry of the probed type was stale. *)
Theorem C17_v0_stale_condition_any_entry_refuted :
  exists (o : json) t s cs,
    conditions_of o = Some cs /\ existsb (stale_entry (generation o) t) cs = true /\
    condition_probe_v0 t s o = (true, []).
Proof. exact v0_stale_condition_any_entry_refuted. Qed.
Print Assumptions C17_v0_stale_condition_any_entry_refuted.

(** fieldsEqual fails when a field is missing (either one, both, or a non-map on the path). *)
Theorem C17_fields_equal_missing_fails :
  forall cel_compile cel_eval (qs : list osp) (p : prober) (q : osp) (o : json) a b,
    parse cel_compile cel_eval qs = inr p -> In q qs -> selects q o = true ->
    In (LFE a b) (leaves (o_probes q)) ->
    field_present o a = false \/ field_present o b = false ->
    fst (p o) = false.
Proof. exact fields_equal_missing_fails. Qed.
Print Assumptions C17_fields_equal_missing_fails.

(** The empty probe list passes every object. *)
Theorem C17_empty_probe_list_passes :
  forall cel_compile cel_eval (o : json), exists p, parse cel_compile cel_eval [] = inr p /\ p o = (true, []).
Proof. exact empty_probe_list_passes. Qed.
Print Assumptions C17_empty_probe_list_passes.

(** A ObjectSetProbe with an empty inner list passes every object that is not object-wide stale. *)
Theorem C17_empty_inner_list_passes :
  forall cel_compile cel_eval sel (p : prober) (o : json),
    parse cel_compile cel_eval [{| o_probes := []; o_sel := sel |}] = inr p -> og_stale o = false -> p o = (true, []).
Proof. exact empty_inner_list_passes. Qed.
Print Assumptions C17_empty_inner_list_passes.

(** CEL rules must be boolean: a rule in effect that NewCELProbe rejects makes Parse fail ... *)
Theorem C17_cel_must_be_boolean :
  forall cel_compile cel_eval (qs : list osp) (q : osp) r,
    In q qs -> In (LCel r) (leaves (o_probes q)) -> cel_compile r <> CelOk ->
    exists e, parse cel_compile cel_eval qs = inl e.
Proof. exact cel_must_be_boolean. Qed.
Print Assumptions C17_cel_must_be_boolean.

(** ... and Parse fails for no other reason than such a rule or an invalid label selector. *)
Theorem C17_parse_total :
  forall cel_compile cel_eval (qs : list osp),
    (forall q, In q qs -> cel_leaves_ok cel_compile (o_probes q) /\ selector_ok q = true) ->
    exists p, parse cel_compile cel_eval qs = inr p.
Proof. exact parse_total. Qed.
Print Assumptions C17_parse_total.

(** The run-time monitor accepts every observation of the model, for every probe list, object
    and oracle table. *)
Theorem C17_monitor_sound :
  forall tbl qs o, monitor (qs, o, tbl, model qs o tbl) = true.
Proof. exact monitor_sound. Qed.
Print Assumptions C17_monitor_sound.

(** The conjunction law as an equation on the success FLAG (messages play no role). *)
Theorem C17_probe_conj_flag :
  forall cel_compile cel_eval (qs : list osp) (p : prober) (o : json),
    parse cel_compile cel_eval qs = inr p ->
    fst (p o) = forallb (fun q => implb (selects q o) (passes_one cel_eval q o)) qs.
Proof. exact probe_conj_b. Qed.
Print Assumptions C17_probe_conj_flag.

(** The phase reconciler (recordingProbe): an object of the phase that was found is recorded in
    the ProbingResult iff some ObjectSetProbe selects it and does not pass; an object that was
    not found is always recorded. One record per failing object, whatever its messages are. *)
Theorem C17_recorded_iff_fails :
  forall cel_compile cel_eval (qs : list osp) (p : prober) (objs : list (option json)),
    parse cel_compile cel_eval qs = inr p ->
    record_phase p objs = map (expected_record cel_eval qs) objs.
Proof. exact recorded_iff_fails. Qed.
Print Assumptions C17_recorded_iff_fails.

(** The ProbingResult is zero (the ObjectSet is reported Available) iff every object of the
    phase was found and passes the prober. *)
Theorem C17_result_zero_iff :
  forall cel_compile cel_eval (qs : list osp) (p : prober) (objs : list (option json)),
    parse cel_compile cel_eval qs = inr p ->
    (result_is_zero (record_phase p objs) = true <->
     forall x, In x objs -> exists o, x = Some o /\ fst (p o) = true).
Proof. exact result_zero_iff. Qed.
Print Assumptions C17_result_zero_iff.

(** Purity across calls: in any history of passes (of any ObjectSets, also of earlier ObjectSets
    of the same name) the verdict of a pass is [verdict] of its own probe list and objects;
    what came before or comes after does not matter. *)
Theorem C17_history_independent :
  forall cel_compile cel_eval (pre : list (list osp * list (option json))) call post,
    nth_error (run_history cel_compile cel_eval (pre ++ call :: post)) (List.length pre)
    = Some (verdict cel_compile cel_eval call).
Proof. exact history_independent. Qed.
Print Assumptions C17_history_independent.

(** The monitor of the phase / history stages accepts every pass of the model. *)
Theorem C17_monitor_pass_sound :
  forall qs objs c, model_pass qs objs = Some c -> monitor_pass c = true.
Proof. exact monitor_pass_sound. Qed.
Print Assumptions C17_monitor_pass_sound.

(** Algebra of the conjunction: probing with the concatenation of two probe lists is the
    conjunction of probing with each (flags) and reports both lists of failures, in order ... *)
Theorem C17_probe_app :
  forall cel_compile cel_eval (qs1 qs2 : list osp) (p1 p2 p : prober) (o : json),
    parse cel_compile cel_eval qs1 = inr p1 -> parse cel_compile cel_eval qs2 = inr p2 ->
    parse cel_compile cel_eval (qs1 ++ qs2) = inr p ->
    fst (p o) = fst (p1 o) && fst (p2 o) /\ snd (p o) = snd (p1 o) ++ snd (p2 o).
Proof. exact probe_app. Qed.
Print Assumptions C17_probe_app.

(** ... the verdict does not depend on the order in which the ObjectSetProbes are listed ... *)
Theorem C17_probe_order_irrelevant :
  forall cel_compile cel_eval (qs qs' : list osp) (p p' : prober) (o : json),
    Permutation qs qs' -> parse cel_compile cel_eval qs = inr p -> parse cel_compile cel_eval qs' = inr p' ->
    fst (p o) = fst (p' o).
Proof. exact probe_perm. Qed.
Print Assumptions C17_probe_order_irrelevant.

(** ... and adding probes never lets an object pass that failed before. *)
Theorem C17_probe_antitone :
  forall cel_compile cel_eval (qs qs' : list osp) (p p' : prober) (o : json),
    incl qs qs' -> parse cel_compile cel_eval qs = inr p -> parse cel_compile cel_eval qs' = inr p' ->
    fst (p' o) = true -> fst (p o) = true.
Proof. exact probe_mono. Qed.
Print Assumptions C17_probe_antitone.

(** Non-vacuity: the hypotheses of the implications above are satisfiable, with a prober that
    really comes out of [parse] (witnesses in C17Corr.v). *)
Example C17_ex_selected_stale :
  exists p, parse ex_cc ex_ce ex_probes = inr p /\ In ex_q ex_probes /\ selects ex_q (ex_object 1 2) = true
            /\ og_stale (ex_object 1 2) = true /\ p (ex_object 1 2) = (false, [RStatusOutdated]).
Proof. exact ex_selected_stale. Qed.
Print Assumptions C17_ex_selected_stale.

Example C17_ex_stale_condition_and_missing_field :
  exists p, parse ex_cc ex_ce ex_probes = inr p
            /\ In (LCond "Available" "True") (leaves (o_probes ex_q))
            /\ In (LFE ".status.a" ".status.b") (leaves (o_probes ex_q))
            /\ conditions_of (ex_object 2 1) = Some [ex_cond 1]
            /\ stale_entry (generation (ex_object 2 1)) "Available" (ex_cond 1) = true
            /\ field_present (ex_object 2 1) ".status.b" = false
            /\ p (ex_object 2 1) = (false, [RCondOutdated; RFieldMissingB; RCelFalse]).
Proof. exact ex_stale_condition_and_missing_field. Qed.
Print Assumptions C17_ex_stale_condition_and_missing_field.

Example C17_ex_unselected :
  exists p, parse ex_cc ex_ce ex_probes = inr p
            /\ (forall q, In q ex_probes -> selects q ex_configmap = false)
            /\ p ex_configmap = (true, []).
Proof. exact ex_unselected. Qed.
Print Assumptions C17_ex_unselected.

Example C17_ex_not_boolean_rejected :
  In (LCel 0%N) (leaves (o_probes ex_q)) /\ parse (fun _ => CelNotBool) ex_ce ex_probes = inl (0%N, ECelNotBool).
Proof. exact ex_not_boolean_rejected. Qed.
Print Assumptions C17_ex_not_boolean_rejected.

(** The monitor is not trivially true: an implementation whose And stops at the first failing
    ObjectSetProbe is rejected, so is one that lets a selected stale object pass, and so is one
    that passes the former witness of the duplicate-condition-type defect. *)
Example C17_ex_monitor_rejects :
  monitor (ex_probes ++ ex_probes, ex_object 2 1, ex_tbl,
           ORun false [(0%N, RCondOutdated); (0%N, RFieldMissingB); (0%N, RCelFalse)]
                [(false, [RCondOutdated; RFieldMissingB; RCelFalse]); (false, [RCondOutdated; RFieldMissingB; RCelFalse])]
                true) = false
  /\ monitor (ex_probes, ex_object 1 2, ex_tbl, ORun true [] [(true, [])] true) = false
  /\ monitor (dup_witness_probes, dup_witness_object, [], ORun true [] [(true, [])] true) = false.
Proof. exact ex_monitor_rejects. Qed.
Print Assumptions C17_ex_monitor_rejects.

(** The former witness on the current model: the parsed prober fails it as outdated. *)
Example C17_ex_dup_witness_now_fails :
  exists p, parse (fun _ => CelOk) (fun _ _ => CelTrue) dup_witness_probes = inr p
            /\ selects dup_witness_q dup_witness_object = true
            /\ p dup_witness_object = (false, [RCondOutdated]).
Proof. exact dup_witness_now_fails. Qed.
Print Assumptions C17_ex_dup_witness_now_fails.

(** The pass monitor is not trivially true: a pass that reports a zero result (Available) although
    the only object fails a probe that selects it is rejected (the symptom of a lost failure whose
    message is empty, and of a prober cached from an earlier ObjectSet of the same name). *)
Example C17_ex_monitor_pass_rejects :
  model_pass ex_probes [(Some (ex_object 2 1), ex_tbl)] = Some (ex_probes, [(Some (ex_object 2 1), ex_tbl, true)], 1%N, false)
  /\ monitor_pass (ex_probes, [(Some (ex_object 2 1), ex_tbl, false)], 0%N, true) = false.
Proof. exact ex_monitor_pass_rejects. Qed.
Print Assumptions C17_ex_monitor_pass_rejects.

(** A stale duplicate of the probed condition type that is separated from the current entry by an
    entry of another type: both monitors reject an implementation that lets it pass, by reading the
    staleness off the object (not via the model), and the model records the object as failed. *)
Example C17_ex_separated_duplicate_rejected :
  stale_selected dup_witness_probes sep_dup_object = true
  /\ nth 3 (pass_clauses (dup_witness_probes, [(Some sep_dup_object, [], false)], 0%N, true)) true = false
  /\ nth 5 (clauses (dup_witness_probes, sep_dup_object, [], ORun true [] [(true, [])] true)) true = false
  /\ model_pass dup_witness_probes [(Some sep_dup_object, [])]
     = Some (dup_witness_probes, [(Some sep_dup_object, [], true)], 1%N, false).
Proof. exact ex_separated_duplicate_rejected. Qed.
Print Assumptions C17_ex_separated_duplicate_rejected.
