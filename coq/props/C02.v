(** C02 — Handover only moves objects forward between revisions.
    Statements only. *)
From Coq Require Import List NArith ZArith Bool.
From PKO Require Import Base Owner OwnerProofs Api Phase AdoptionProofs PhaseProofs AdoptProofs RevisionProofs.
Import ListNotations.

(** An ObjectSet never takes control of an object whose recorded revision is higher than its own:
    for every object state, previous list, collisionProtection, both strategies, forced or not. *)
Theorem C02_adoption_only_from_lower_or_equal_revision :
  forall s force ow o prev cp, check_adoption s force ow o prev cp = Adopt ->
    exists r, obj_revision o = Some r /\ (r <= ow_rev ow)%Z.
Proof. exact adopt_rev_le. Qed.
Print Assumptions C02_adoption_only_from_lower_or_equal_revision.

(** After a handover the object has exactly one controller, the adopting revision; its recorded
    revision is the adopter's (hence not lower than before, by the theorem above); with native
    ownerReferences every former owner is still listed, demoted; with the owners annotation the
    annotation is exactly the adopter. *)
Theorem C02_handover_leaves_exactly_one_controller :
  forall c w ow prev p o,
    ow_paused ow = false ->
    (match flavor_strat (c_flavor c) with Native => validate_owner (ow_id ow) (k_ns (key_of ow p)) = true | Annot => True end) ->
    lookup (key_of ow p) (w_store w) = Some o ->
    is_controller (flavor_strat (c_flavor c)) (ow_id ow) o = false ->
    permitted (flavor_strat (c_flavor c)) (c_force c) ow o prev (po_cp p) = true ->
    obj_wf (flavor_strat (c_flavor c)) (ow_id ow) o ->
    exists w' o',
      reconcile_object c idw w ow prev p = (w', [EApply (key_of ow p) (Some o) (Some o) (POk o')], ROk o') /\
      lookup (key_of ow p) (w_store w') = Some o' /\
      is_controller (flavor_strat (c_flavor c)) (ow_id ow) o' = true /\
      controllers (flavor_strat (c_flavor c)) o' = [ctrl_ref (ow_id ow)] /\
      o_rev o' = RevNum (ow_rev ow) /\ o_uid o' = o_uid o /\
      (forall r, In r (refs (flavor_strat (c_flavor c)) o) -> same_gkn r (ow_id ow) = false ->
                 flavor_strat (c_flavor c) = Native -> In (demote r) (refs (flavor_strat (c_flavor c)) o')).
Proof. exact rec_obj_adopt. Qed.
Print Assumptions C02_handover_leaves_exactly_one_controller.

(** The owner-list algebra behind it, for any well-formed list. *)
Theorem C02_owner_list_after_adoption :
  forall ow refs, refs_wf ow refs ->
    let l := upsert_ref (fun x => same_gkn x ow) (ctrl_ref ow) (release_l refs) in
    filter r_ctrl l = [ctrl_ref ow] /\
    (forall r, In r refs -> same_gkn r ow = false -> In (demote r) l) /\
    is_controller_l ow l = true.
Proof. exact adopt_controllers. Qed.
Print Assumptions C02_owner_list_after_adoption.

(** No Package Operator write lowers an object's recorded revision. Invariant [rev_consistent]: an object
    controlled by an owner records that owner's revision. Under it every successful write of a reconcile
    records the writer's revision, which is not lower than what was recorded before (already controlled:
    equal; adoption: only from a revision that is not higher) ... *)
Theorem C02_no_write_lowers_the_recorded_revision :
  forall c w ow prev p o w' evs r,
    lookup (key_of ow p) (w_store w) = Some o -> rev_consistent c ow o ->
    reconcile_object c idw w ow prev p = (w', evs, r) -> Forall (ev_rev_ok ow o) evs.
Proof. exact rec_obj_revision_monotone. Qed.
Print Assumptions C02_no_write_lowers_the_recorded_revision.

(** ... and the invariant holds again for the writer afterwards, so it is preserved along every history of
    reconciles of any revisions (third parties that rewrite the revision annotation of an object Package
    Operator controls are tampering and excluded, DESIGN section 9). *)
Theorem C02_revision_invariant_reestablished :
  forall c w ow prev p w' evs o',
    reconcile_object c idw w ow prev p = (w', evs, ROk o') -> ow_paused ow = false ->
    is_controller (flavor_strat (c_flavor c)) (ow_id ow) o' = true ->
    (forall o, lookup (key_of ow p) (w_store w) = Some o -> rev_consistent c ow o) ->
    obj_revision o' = Some (ow_rev ow).
Proof. exact rec_obj_revision_consistent_after. Qed.
Print Assumptions C02_revision_invariant_reestablished.

(** The per-apply monitor evaluated on the implementation (coq/corr/C02Corr.v) accepts every pass of the model. *)
From PKOCorr Require Import PhaseCorr C02Corr C05Sound C02Sound.
Theorem C02_monitor_sound : forall c : pcase, C02Corr.monitor (set_obs c (model_run c)) = true.
Proof. exact C02Sound.monitor_sound. Qed.
Print Assumptions C02_monitor_sound.

(** status.revision: set once, to a number strictly greater than every declared previous revision's, and
    never while one of them has not reported its own. *)
From PKO Require Import ObjectSet RevisionSetProofs.
Theorem C02_status_revision_fixed_once_set :
  forall sw mem, os_revision mem <> 0%Z -> revision_pass sw mem = (sw, [], mem, RevGo).
Proof. exact revision_fixed_once_set. Qed.
Print Assumptions C02_status_revision_fixed_once_set.

Theorem C02_status_revision_exceeds_previous :
  forall sw mem sw1 evs1 mem1 rr,
    os_revision mem = 0%Z -> os_prev mem <> [] ->
    revision_pass sw mem = (sw1, evs1, mem1, rr) ->
    (os_revision mem1 = 0%Z /\ rr <> RevGo) \/
    (forall n, In n (os_prev mem) ->
       exists p, find_set (sw_sets sw) (oi_kind (os_id mem)) (oi_ns (os_id mem)) n = Some p /\
                 os_revision p <> 0%Z /\ (os_revision p < os_revision mem1)%Z).
Proof. exact revision_from_previous. Qed.
Print Assumptions C02_status_revision_exceeds_previous.

(** C02 at the controller level (coq/corr/SetMonitors.v m02s: the phase-level monitor C02Corr on the member requests of
    an active pass of an ObjectSet with a revision - handover only forward, one controller, owner's revision recorded)
    accepts every pass of the ObjectSet controller model. *)
From PKO Require Import ObjectSet.
From PKOCorr Require Import SetCorr SetMonitors SetMonSound SetMonSound2.
Theorem C02_set_monitor_sound : forall c : scase, m02s (set_obs_s c (SetCorr.model_run c)) = true.
Proof. exact m02s_sound. Qed.
Print Assumptions C02_set_monitor_sound.
