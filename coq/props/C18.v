(** C18 (ObjectTemplates track their sources and stay within bounds): property theorems.
    This file contains statements only; every proof is `exact <lemma>`.

    Reading guide. [world] = API-server store + the ObjectTemplate + the dynamic cache's owner sets +
    environment; [pass] = one GenericObjectTemplateController.Reconcile; [final w0 ss] = the world a
    history [ss] (source create/edit/delete, status writes, template edit/delete, environment change,
    passes - in any interleaving) leads to from an arbitrary initial world [w0]. Every per-pass clause is
    stated at [final w0 ss], i.e. for every reachable (indeed every) pre-state; [run_snoc] says that the
    n-th observation of a history is exactly that pass. All statements quantify over the template
    ([render] is an arbitrary function from the collected values and the environment to a render result),
    the kind table and the two retry intervals.
    [scan (pfbad ..) store ..] = "the values the pass reads from the sources", in order;
    [target_writes] = successful Create/Update requests on the target. *)
From Coq Require Import List NArith Bool.
From PKO Require Import Template TemplateProofs.
From PKOCorr Require Import C18Corr.
Import ListNotations.
Local Open Scope N_scope.

(** output_is_render: whatever a pass writes is the template rendered with the values read from the
    sources in this very pass and the environment, at the key the template denotes (namespace overridden
    by the template's); at most one object is written. Object content is compared component-wise: one map
    whose keys below 1000 are .data, 1000-1999 labels, 2000-2999 annotations. [follows d body]: every
    rendered entry is in [d] with the rendered value and [d] has no .data entry beyond the rendered ones;
    on the update path [d] may also carry label / annotation keys that only the existing target had
    (labels.Merge(existing, rendered), template_reconciler.go:117-118: rendered keys win, existing-only
    keys are KEPT - that is what the code on /repo does and what the model does). *)
Theorem C18_output_is_render :
  forall (code : Type) (render : code -> data -> N -> rres) (scope_of : N -> option bool) (iv_res iv_opt : N)
         (w0 : world code) (ss : list (step code)) (t : tmpl code) (w' : world code) (r : pres),
    let w := final render scope_of ns_escalation iv_res iv_opt w0 ss in
    w_tmpl w = Some t -> t_del t = false -> pass render scope_of ns_escalation iv_res iv_opt w = (w', r) ->
    forall k d, In (k, d) (target_writes (p_evs r)) ->
    exists cfg retry k0 body orefs,
      scan scope_of (pfbad scope_of (t_ns t)) (w_store w) (t_ns t) (t_sources t) [] false = ScOk cfg retry /\
      render (t_code t) cfg (w_env w) = RObj k0 body orefs /\ follows d body = true /\
      pf_violation scope_of ns_escalation (t_ns t) k0 orefs = false /\
      k = eff_key (t_ns t) k0 /\ target_writes (p_evs r) = [(k, d)].
Proof. exact (fun code render scope_of iv_res iv_opt w0 ss =>
                @output_is_render code render scope_of iv_res iv_opt (final render scope_of ns_escalation iv_res iv_opt w0 ss)). Qed.
Print Assumptions C18_output_is_render.

(** The two ways a target is written satisfy [follows]: a created object carries exactly the rendered content;
    an updated one carries the rendered content merged over the labels / annotations of the existing object
    ([merge_meta]: rendered keys win, keys only the existing object has are kept, .data is the rendered one). *)
Theorem C18_written_content_follows_render :
  forall ex body : data, follows body body = true /\ follows (merge_meta ex body) body = true /\
    forall k, has_key k body = true -> dlookup k (merge_meta ex body) = dlookup k body.
Proof. exact (fun ex body => conj (follows_refl body) (conj (follows_merge ex body) (merge_meta_body ex body))). Qed.
Print Assumptions C18_written_content_follows_render.

(** ... and conversely, when every source is readable and the rendered object passes the admission
    checks, the pass writes exactly that object, or returns an error (which controller-runtime retries). *)
Theorem C18_render_is_output :
  forall (code : Type) (render : code -> data -> N -> rres) (scope_of : N -> option bool) (iv_res iv_opt : N)
         (w0 : world code) (ss : list (step code)) (t : tmpl code) (w' : world code) (r : pres),
    let w := final render scope_of ns_escalation iv_res iv_opt w0 ss in
    w_tmpl w = Some t -> t_del t = false -> pass render scope_of ns_escalation iv_res iv_opt w = (w', r) ->
    forall cfg retry k0 d orefs,
    scan scope_of (pfbad scope_of (t_ns t)) (w_store w) (t_ns t) (t_sources t) [] false = ScOk cfg retry ->
    render (t_code t) cfg (w_env w) = RObj k0 d orefs -> pf_violation scope_of ns_escalation (t_ns t) k0 orefs = false ->
    p_err r <> 0 \/ exists d', target_writes (p_evs r) = [(eff_key (t_ns t) k0, d')] /\ follows d' d = true.
Proof. exact (fun code render scope_of iv_res iv_opt w0 ss =>
                @render_is_output code render scope_of iv_res iv_opt (final render scope_of ns_escalation iv_res iv_opt w0 ss)). Qed.
Print Assumptions C18_render_is_output.

(** required_missing_no_write: some required source does not exist => nothing is written, no error is
    returned, the persisted status carries Invalid=True/SourceError (t_invalid = 1). *)
Theorem C18_required_missing_no_write :
  forall (code : Type) (render : code -> data -> N -> rres) (scope_of : N -> option bool) (iv_res iv_opt : N)
         (w0 : world code) (ss : list (step code)) (t : tmpl code) (w' : world code) (r : pres),
    let w := final render scope_of ns_escalation iv_res iv_opt w0 ss in
    w_tmpl w = Some t -> t_del t = false -> pass render scope_of ns_escalation iv_res iv_opt w = (w', r) ->
    (exists s, In s (t_sources t) /\ s_opt s = false /\ lookup (nkey scope_of (src_key (t_ns t) s)) (w_store w) = None) ->
    target_writes (p_evs r) = [] /\ p_err r = 0 /\ exists t', w_tmpl w' = Some t' /\ t_invalid t' = 1.
Proof. exact (fun code render scope_of iv_res iv_opt w0 ss =>
                @required_missing_no_write code render scope_of iv_res iv_opt (final render scope_of ns_escalation iv_res iv_opt w0 ss)). Qed.
Print Assumptions C18_required_missing_no_write.

(** ... and when the missing required source is what stops the collection (every earlier reference was
    readable), the pass asks to be requeued after ResourceRetryInterval. *)
Theorem C18_required_missing_requeue :
  forall (code : Type) (render : code -> data -> N -> rres) (scope_of : N -> option bool) (iv_res iv_opt : N)
         (w0 : world code) (ss : list (step code)) (t : tmpl code) (w' : world code) (r : pres),
    let w := final render scope_of ns_escalation iv_res iv_opt w0 ss in
    w_tmpl w = Some t -> t_del t = false -> pass render scope_of ns_escalation iv_res iv_opt w = (w', r) ->
    scan scope_of (pfbad scope_of (t_ns t)) (w_store w) (t_ns t) (t_sources t) [] false = ScMissing ->
    p_requeue r = iv_res /\ target_writes (p_evs r) = [] /\ p_err r = 0 /\
    exists t', w_tmpl w' = Some t' /\ t_invalid t' = 1.
Proof. exact (fun code render scope_of iv_res iv_opt w0 ss =>
                @required_missing_requeue code render scope_of iv_res iv_opt (final render scope_of ns_escalation iv_res iv_opt w0 ss)). Qed.
Print Assumptions C18_required_missing_requeue.

(** optional_missing_retry: all references readable but some optional source missing (the collection
    ends with retry = true, which happens exactly then) => RequeueAfter = OptionalResourceRetryInterval,
    and the target is still written from the remaining sources (or the pass errs). *)
Theorem C18_optional_missing_retry :
  forall (code : Type) (render : code -> data -> N -> rres) (scope_of : N -> option bool) (iv_res iv_opt : N)
         (w0 : world code) (ss : list (step code)) (t : tmpl code) (w' : world code) (r : pres),
    let w := final render scope_of ns_escalation iv_res iv_opt w0 ss in
    w_tmpl w = Some t -> t_del t = false -> pass render scope_of ns_escalation iv_res iv_opt w = (w', r) ->
    forall cfg,
    scan scope_of (pfbad scope_of (t_ns t)) (w_store w) (t_ns t) (t_sources t) [] false = ScOk cfg true ->
    p_requeue r = iv_opt /\
    (exists s, In s (t_sources t) /\ s_opt s = true /\ lookup (nkey scope_of (src_key (t_ns t) s)) (w_store w) = None) /\
    (forall k0 d orefs, render (t_code t) cfg (w_env w) = RObj k0 d orefs -> pf_violation scope_of ns_escalation (t_ns t) k0 orefs = false ->
       p_err r <> 0 \/ exists d', target_writes (p_evs r) = [(eff_key (t_ns t) k0, d')] /\ follows d' d = true).
Proof. exact (fun code render scope_of iv_res iv_opt w0 ss =>
                @optional_missing_retry code render scope_of iv_res iv_opt (final render scope_of ns_escalation iv_res iv_opt w0 ss)). Qed.
Print Assumptions C18_optional_missing_retry.

(** unparsable_no_write: the template does not parse / execute => nothing written, Invalid=True/TemplateError. *)
Theorem C18_unparsable_no_write :
  forall (code : Type) (render : code -> data -> N -> rres) (scope_of : N -> option bool) (iv_res iv_opt : N)
         (w0 : world code) (ss : list (step code)) (t : tmpl code) (w' : world code) (r : pres),
    let w := final render scope_of ns_escalation iv_res iv_opt w0 ss in
    w_tmpl w = Some t -> t_del t = false -> pass render scope_of ns_escalation iv_res iv_opt w = (w', r) ->
    forall cfg retry,
    scan scope_of (pfbad scope_of (t_ns t)) (w_store w) (t_ns t) (t_sources t) [] false = ScOk cfg retry ->
    render (t_code t) cfg (w_env w) = RTmplErr ->
    target_writes (p_evs r) = [] /\ p_err r = 0 /\ p_requeue r = rq_of iv_opt retry /\
    exists t', w_tmpl w' = Some t' /\ t_invalid t' = 2.
Proof. exact (fun code render scope_of iv_res iv_opt w0 ss =>
                @unparsable_no_write code render scope_of iv_res iv_opt (final render scope_of ns_escalation iv_res iv_opt w0 ss)). Qed.
Print Assumptions C18_unparsable_no_write.

(** A template text that fails on every input never writes, whatever the sources; Invalid is reported. *)
Theorem C18_unparsable_never_writes :
  forall (code : Type) (render : code -> data -> N -> rres) (scope_of : N -> option bool) (iv_res iv_opt : N)
         (w0 : world code) (ss : list (step code)) (t : tmpl code) (w' : world code) (r : pres),
    let w := final render scope_of ns_escalation iv_res iv_opt w0 ss in
    w_tmpl w = Some t -> t_del t = false -> pass render scope_of ns_escalation iv_res iv_opt w = (w', r) ->
    (forall cfg env, render (t_code t) cfg env = RTmplErr) ->
    target_writes (p_evs r) = [] /\ p_err r = 0 /\
    exists t', w_tmpl w' = Some t' /\ (t_invalid t' = 1 \/ t_invalid t' = 2).
Proof. exact (fun code render scope_of iv_res iv_opt w0 ss =>
                @unparsable_never_writes code render scope_of iv_res iv_opt (final render scope_of ns_escalation iv_res iv_opt w0 ss)). Qed.
Print Assumptions C18_unparsable_never_writes.

(** Boundary of the clause: a template whose OUTPUT is not YAML writes nothing either, but this is
    returned as a plain error (err class 1, retried with backoff) and not reported through Invalid. *)
Theorem C18_nonyaml_no_write :
  forall (code : Type) (render : code -> data -> N -> rres) (scope_of : N -> option bool) (iv_res iv_opt : N)
         (w0 : world code) (ss : list (step code)) (t : tmpl code) (w' : world code) (r : pres),
    let w := final render scope_of ns_escalation iv_res iv_opt w0 ss in
    w_tmpl w = Some t -> t_del t = false -> pass render scope_of ns_escalation iv_res iv_opt w = (w', r) ->
    forall cfg retry,
    scan scope_of (pfbad scope_of (t_ns t)) (w_store w) (t_ns t) (t_sources t) [] false = ScOk cfg retry ->
    render (t_code t) cfg (w_env w) = RYamlErr -> target_writes (p_evs r) = [] /\ p_err r = 1.
Proof. exact (fun code render scope_of iv_res iv_opt w0 ss =>
                @nonyaml_no_write code render scope_of iv_res iv_opt (final render scope_of ns_escalation iv_res iv_opt w0 ss)). Qed.
Print Assumptions C18_nonyaml_no_write.

(** namespace_bound, in full: a pass of a NAMESPACED ObjectTemplate (t_ns t <> 0)
    - label-patches only objects inside the bounds (namespaced kind, the template's namespace),
    - asks the dynamic cache to watch namespaced kinds only (no cluster-wide informer on a cluster-scoped kind),
    - writes only inside the bounds, and whatever it writes was collected from sources none of which is
      cluster-scoped or in another namespace (no read-through),
    - a source that is cluster-scoped or in another namespace stops the pass: nothing written, no error
      returned, Invalid=True/SourceError reported, and that source is not label-patched,
    - a rendered target that is cluster-scoped or in another namespace: nothing written, no error returned,
      Invalid=True/SourceError reported.
    ([oob] = outside the bounds: other namespace, or not a namespaced kind.) *)
Theorem C18_namespace_bound :
  forall (code : Type) (render : code -> data -> N -> rres) (scope_of : N -> option bool) (iv_res iv_opt : N)
         (w0 : world code) (ss : list (step code)) (t : tmpl code) (w' : world code) (r : pres),
    let w := final render scope_of ns_escalation iv_res iv_opt w0 ss in
    w_tmpl w = Some t -> t_del t = false -> pass render scope_of ns_escalation iv_res iv_opt w = (w', r) -> t_ns t <> 0 ->
    let tns := t_ns t in
    (forall k, In k (label_patches (p_evs r)) -> in_bounds scope_of tns k = true) /\
    (forall kd, In kd (watch_calls (p_evs r)) -> is_namespaced scope_of kd = true) /\
    (forall k d, In (k, d) (target_writes (p_evs r)) ->
       in_bounds scope_of tns k = true /\ forall s, In s (t_sources t) -> oob scope_of tns (s_kind s, s_ns s, s_name s) = false) /\
    ((exists s, In s (t_sources t) /\ oob scope_of tns (s_kind s, s_ns s, s_name s) = true) ->
       target_writes (p_evs r) = [] /\ p_err r = 0 /\ (exists t', w_tmpl w' = Some t' /\ t_invalid t' = 1) /\
       forall s, In s (t_sources t) -> oob scope_of tns (s_kind s, s_ns s, s_name s) = true ->
                 ~ In (nkey scope_of (src_key tns s)) (label_patches (p_evs r))) /\
    (forall cfg retry k0 d orefs,
       scan scope_of (pfbad scope_of tns) (w_store w) tns (t_sources t) [] false = ScOk cfg retry ->
       render (t_code t) cfg (w_env w) = RObj k0 d orefs -> oob scope_of tns k0 = true ->
       target_writes (p_evs r) = [] /\ p_err r = 0 /\ exists t', w_tmpl w' = Some t' /\ t_invalid t' = 1).
Proof. exact (fun code render scope_of iv_res iv_opt w0 ss =>
                @namespace_bound code render scope_of iv_res iv_opt (final render scope_of ns_escalation iv_res iv_opt w0 ss)). Qed.
Print Assumptions C18_namespace_bound.

(** The same for every admission failure, template scope and kind table: a source reference that is out of
    bounds, of an unknown API, or namespaced without namespace under a cluster-scoped template ([src_bad]);
    likewise a rendered target, or one that carries owner references ([tgt_bad]). *)
Theorem C18_inadmissible_source_no_write :
  forall (code : Type) (render : code -> data -> N -> rres) (scope_of : N -> option bool) (iv_res iv_opt : N)
         (w0 : world code) (ss : list (step code)) (t : tmpl code) (w' : world code) (r : pres),
    let w := final render scope_of ns_escalation iv_res iv_opt w0 ss in
    w_tmpl w = Some t -> t_del t = false -> pass render scope_of ns_escalation iv_res iv_opt w = (w', r) ->
    (exists s, In s (t_sources t) /\ src_bad scope_of (t_ns t) s = true) ->
    target_writes (p_evs r) = [] /\ p_err r = 0 /\ exists t', w_tmpl w' = Some t' /\ t_invalid t' = 1.
Proof. exact (fun code render scope_of iv_res iv_opt w0 ss =>
                @source_out_of_bounds_no_write code render scope_of iv_res iv_opt (final render scope_of ns_escalation iv_res iv_opt w0 ss)). Qed.
Print Assumptions C18_inadmissible_source_no_write.

Theorem C18_inadmissible_target_no_write :
  forall (code : Type) (render : code -> data -> N -> rres) (scope_of : N -> option bool) (iv_res iv_opt : N)
         (w0 : world code) (ss : list (step code)) (t : tmpl code) (w' : world code) (r : pres),
    let w := final render scope_of ns_escalation iv_res iv_opt w0 ss in
    w_tmpl w = Some t -> t_del t = false -> pass render scope_of ns_escalation iv_res iv_opt w = (w', r) ->
    forall cfg retry k0 d orefs,
    scan scope_of (pfbad scope_of (t_ns t)) (w_store w) (t_ns t) (t_sources t) [] false = ScOk cfg retry ->
    render (t_code t) cfg (w_env w) = RObj k0 d orefs -> tgt_bad scope_of (t_ns t) k0 orefs = true ->
    target_writes (p_evs r) = [] /\ p_err r = 0 /\ exists t', w_tmpl w' = Some t' /\ t_invalid t' = 1.
Proof. exact (fun code render scope_of iv_res iv_opt w0 ss =>
                @target_out_of_bounds_no_write code render scope_of iv_res iv_opt (final render scope_of ns_escalation iv_res iv_opt w0 ss)). Qed.
Print Assumptions C18_inadmissible_target_no_write.

(** History of the clause. Against [ns_escalation_v0], the namespace check as it was before aa47ee3 (it
    returned as soon as the object named the owner's namespace, before looking at the scope of the kind),
    the clause was REFUTED: a namespaced template in namespace 1 with the source {kind 3 (cluster-scoped),
    namespace 1, name 1} watched the cluster-scoped kind, label-patched the cluster-scoped object 3/-/1,
    copied its data into a ConfigMap in namespace 1 and reported no Invalid (finding F-C18, replayed on
    the real controller at the time). Defect fixed by aa47ee3. *)
Theorem C18_v0_namespace_bound_refuted :
  exists (w : world unit) t s,
    w_tmpl w = Some t /\ t_del t = false /\ t_ns t <> 0 /\ In s (t_sources t) /\
    oob Witness.scope (t_ns t) (s_kind s, s_ns s, s_name s) = true /\
    let '(w', r) := pass Witness.render_cm Witness.scope ns_escalation_v0 30 60 w in
    label_patches (p_evs r) = [(3, 0, 1)] /\ in_bounds Witness.scope (t_ns t) (3, 0, 1) = false /\
    target_writes (p_evs r) = [((1, 1, 100), [(1, 7)])] /\
    watched 3 me (w_watch w') = true /\
    exists t', w_tmpl w' = Some t' /\ t_invalid t' = 0.
Proof. exact v0_namespace_bound_refuted. Qed.
Print Assumptions C18_v0_namespace_bound_refuted.

(** Target side of the same defect (fixed by aa47ee3): a cluster-scoped target rendered with the template's own
    namespace passed the old check; the API server rejected the create, the pass returned an error forever
    and Invalid was not reported. *)
Theorem C18_v0_namespace_bound_target_refuted :
  exists (w : world unit) t,
    w_tmpl w = Some t /\ t_del t = false /\ t_ns t <> 0 /\
    (forall cfg env, exists k d, Witness.render_cluster (t_code t) cfg env = RObj k d false /\ oob Witness.scope (t_ns t) k = true) /\
    let '(w', r) := pass Witness.render_cluster Witness.scope ns_escalation_v0 30 60 w in
    p_err r = 2 /\ target_writes (p_evs r) = [] /\ exists t', w_tmpl w' = Some t' /\ t_invalid t' = 0.
Proof. exact v0_namespace_bound_target_refuted. Qed.
Print Assumptions C18_v0_namespace_bound_target_refuted.

(** The same two worlds under the check as it is now. *)
Theorem C18_v0_witnesses_now_rejected :
  (let '(w', r) := pass Witness.render_cm Witness.scope ns_escalation 30 60 Witness.w_src in
   label_patches (p_evs r) = [] /\ target_writes (p_evs r) = [] /\ watch_calls (p_evs r) = [] /\ p_err r = 0 /\
   exists t', w_tmpl w' = Some t' /\ t_invalid t' = 1) /\
  (let '(w', r) := pass Witness.render_cluster Witness.scope ns_escalation 30 60 Witness.w_tgt in
   target_writes (p_evs r) = [] /\ watch_calls (p_evs r) = [1] /\ p_err r = 0 /\
   exists t', w_tmpl w' = Some t' /\ t_invalid t' = 1).
Proof. exact witnesses_now_rejected. Qed.
Print Assumptions C18_v0_witnesses_now_rejected.

(** delete_frees: a pass on a deleting ObjectTemplate calls Free, THEN removes the finalizer (if present),
    writes and patches nothing; afterwards the template is in no owner set, other owners are untouched, and
    with the finalizer gone the object is gone. *)
Theorem C18_delete_frees :
  forall (code : Type) (render : code -> data -> N -> rres) (scope_of : N -> option bool) (iv_res iv_opt : N)
         (w0 : world code) (ss : list (step code)) (t : tmpl code) (w' : world code) (r : pres),
    let w := final render scope_of ns_escalation iv_res iv_opt w0 ss in
    w_tmpl w = Some t -> t_del t = true -> pass render scope_of ns_escalation iv_res iv_opt w = (w', r) ->
    p_evs r = EFree :: (if t_fin t then [EFinRm] else []) /\
    target_writes (p_evs r) = [] /\ label_patches (p_evs r) = [] /\ p_err r = 0 /\ p_requeue r = 0 /\
    (forall kd, watched kd me (w_watch w') = false) /\
    (forall kd o, o <> me -> watched kd o (w_watch w') = watched kd o (w_watch w)) /\
    (t_fin t = true -> w_tmpl w' = None) /\ w_store w' = w_store w.
Proof. exact (fun code render scope_of iv_res iv_opt w0 ss =>
                @delete_frees code render scope_of iv_res iv_opt (final render scope_of ns_escalation iv_res iv_opt w0 ss)). Qed.
Print Assumptions C18_delete_frees.

(** tracks_sources: after a successful pass (no error, no Invalid) the template is in the owner set of
    every source kind and every existing source object carries the cache label ... *)
Theorem C18_tracks_sources :
  forall (code : Type) (render : code -> data -> N -> rres) (scope_of : N -> option bool) (iv_res iv_opt : N)
         (w0 : world code) (ss : list (step code)) (t : tmpl code) (w' : world code) (r : pres),
    let w := final render scope_of ns_escalation iv_res iv_opt w0 ss in
    w_tmpl w = Some t -> t_del t = false -> pass render scope_of ns_escalation iv_res iv_opt w = (w', r) ->
    p_err r = 0 -> (exists t', w_tmpl w' = Some t' /\ t_invalid t' = 0) ->
    Forall (tracked scope_of (t_ns t) w') (t_sources t).
Proof. exact (fun code render scope_of iv_res iv_opt w0 ss =>
                @tracks_sources code render scope_of iv_res iv_opt (final render scope_of ns_escalation iv_res iv_opt w0 ss)). Qed.
Print Assumptions C18_tracks_sources.

(** ... hence deleting or editing any existing source makes EnqueueWatchingObjects enqueue the
    ObjectTemplate (event delivery by the informer and the queue-to-Reconcile step are runtime). *)
Theorem C18_source_change_schedules_pass :
  forall (code : Type) (render : code -> data -> N -> rres) (scope_of : N -> option bool) (iv_res iv_opt : N)
         (w0 : world code) (ss : list (step code)) (t : tmpl code) (w' : world code) (r : pres),
    let w := final render scope_of ns_escalation iv_res iv_opt w0 ss in
    w_tmpl w = Some t -> t_del t = false -> pass render scope_of ns_escalation iv_res iv_opt w = (w', r) ->
    p_err r = 0 -> (exists t', w_tmpl w' = Some t' /\ t_invalid t' = 0) ->
    forall s o, In s (t_sources t) -> lookup (nkey scope_of (src_key (t_ns t) s)) (w_store w') = Some o ->
      snd (do_step render scope_of ns_escalation iv_res iv_opt w' (SDel (nkey scope_of (src_key (t_ns t) s)))) = OEnq true /\
      forall d lbl, d <> o_data o ->
        snd (do_step render scope_of ns_escalation iv_res iv_opt w' (SPut (nkey scope_of (src_key (t_ns t) s)) d lbl)) = OEnq true.
Proof. exact (fun code render scope_of iv_res iv_opt w0 ss =>
                @source_change_schedules_pass code render scope_of iv_res iv_opt (final render scope_of ns_escalation iv_res iv_opt w0 ss)). Qed.
Print Assumptions C18_source_change_schedules_pass.

(** quiescent_equals_render: in any history from any initial world, if the last step is a successful pass,
    the stored target equals the template rendered with the sources and environment as they are then
    ([expected] collects the CURRENT store with the property's own admission notion). Hypothesis: the
    pass did not write onto one of the template's own sources. *)
Theorem C18_quiescent_equals_render :
  forall (code : Type) (render : code -> data -> N -> rres) (scope_of : N -> option bool) (iv_res iv_opt : N)
         (w0 : world code) (ss : list (step code)) (t : tmpl code),
    let wp := final render scope_of ns_escalation iv_res iv_opt w0 ss in
    let w := final render scope_of ns_escalation iv_res iv_opt w0 (ss ++ [SPass]) in
    let r := snd (pass render scope_of ns_escalation iv_res iv_opt wp) in
    w_tmpl wp = Some t -> t_del t = false ->
    p_err r = 0 -> (exists t', w_tmpl w = Some t' /\ t_invalid t' = 0) ->
    (forall k d, In (k, d) (target_writes (p_evs r)) -> forall s, In s (t_sources t) -> nkey scope_of (src_key (t_ns t) s) <> k) ->
    exists t' k d o, w_tmpl w = Some t' /\ expected render scope_of t' (w_store w) (w_env w) = Some (k, d) /\
                     lookup k (w_store w) = Some o /\ follows (o_data o) d = true /\ o_label o = true.
Proof. exact @quiescent_equals_render. Qed.
Print Assumptions C18_quiescent_equals_render.

(** ... that state is [settled], and stays so under any number of further passes (requeues, passes
    triggered by the controller's own writes) as long as nothing else changes: every such pass succeeds
    and rewrites the same object. *)
Theorem C18_success_settles :
  forall (code : Type) (render : code -> data -> N -> rres) (scope_of : N -> option bool) (iv_res iv_opt : N)
         (w0 : world code) (ss : list (step code)) (t : tmpl code) (w' : world code) (r : pres),
    let w := final render scope_of ns_escalation iv_res iv_opt w0 ss in
    w_tmpl w = Some t -> t_del t = false -> pass render scope_of ns_escalation iv_res iv_opt w = (w', r) ->
    p_err r = 0 -> (exists t', w_tmpl w' = Some t' /\ t_invalid t' = 0) ->
    (forall k d, In (k, d) (target_writes (p_evs r)) -> forall s, In s (t_sources t) -> nkey scope_of (src_key (t_ns t) s) <> k) ->
    settled render scope_of w'.
Proof. exact (fun code render scope_of iv_res iv_opt w0 ss =>
                @success_settles code render scope_of iv_res iv_opt (final render scope_of ns_escalation iv_res iv_opt w0 ss)). Qed.
Print Assumptions C18_success_settles.

Theorem C18_quiescent_stable :
  forall (code : Type) (render : code -> data -> N -> rres) (scope_of : N -> option bool) (iv_res iv_opt : N)
         (w : world code) (n : nat),
    settled render scope_of w -> settled render scope_of (final render scope_of ns_escalation iv_res iv_opt w (repeat SPass n)).
Proof. exact @quiescent_stable. Qed.
Print Assumptions C18_quiescent_stable.

Theorem C18_settled_pass :
  forall (code : Type) (render : code -> data -> N -> rres) (scope_of : N -> option bool) (iv_res iv_opt : N)
         (w w' : world code) (r : pres),
    settled render scope_of w -> pass render scope_of ns_escalation iv_res iv_opt w = (w', r) ->
    settled render scope_of w' /\ p_err r = 0 /\ (exists t', w_tmpl w' = Some t' /\ t_invalid t' = 0) /\
    exists t k d, w_tmpl w = Some t /\ expected render scope_of t (w_store w) (w_env w) = Some (k, d) /\
                  expected render scope_of t (w_store w') (w_env w') = Some (k, d) /\
                  exists d', target_writes (p_evs r) = [(k, d')] /\ follows d' d = true.
Proof. exact @settled_pass. Qed.
Print Assumptions C18_settled_pass.

(** The cache label is three-valued (absent | exactly "True" | any other value); the informers select on
    exactly "True". A successful pass in which every source exists leaves the world [calm]: every source
    and the target exist, carry the label with exactly that value (whatever they carried before: the pass
    re-patches a key that is present with another value), and their kinds are watched by the template. *)
Theorem C18_success_calms :
  forall (code : Type) (render : code -> data -> N -> rres) (scope_of : N -> option bool) (iv_res iv_opt : N)
         (w0 : world code) (ss : list (step code)) (t : tmpl code) (w' : world code) (r : pres),
    let w := final render scope_of ns_escalation iv_res iv_opt w0 ss in
    w_tmpl w = Some t -> t_del t = false -> pass render scope_of ns_escalation iv_res iv_opt w = (w', r) ->
    p_err r = 0 -> (exists t', w_tmpl w' = Some t' /\ t_invalid t' = 0) ->
    (forall k d, In (k, d) (target_writes (p_evs r)) -> forall s, In s (t_sources t) -> nkey scope_of (src_key (t_ns t) s) <> k) ->
    (forall s, In s (t_sources t) -> lookup (nkey scope_of (src_key (t_ns t) s)) (w_store w') <> None) ->
    calm render scope_of w'.
Proof. exact (fun code render scope_of iv_res iv_opt w0 ss =>
                @success_calms code render scope_of iv_res iv_opt (final render scope_of ns_escalation iv_res iv_opt w0 ss)). Qed.
Print Assumptions C18_success_calms.

Theorem C18_calm_labels :
  forall (code : Type) (render : code -> data -> N -> rres) (scope_of : N -> option bool) (w : world code),
    calm render scope_of w ->
    exists t k o, w_tmpl w = Some t /\ lookup k (w_store w) = Some o /\ o_lbl o = LTrue /\
      forall s, In s (t_sources t) -> exists os, lookup (nkey scope_of (src_key (t_ns t) s)) (w_store w) = Some os /\ o_lbl os = LTrue.
Proof. exact @calm_labels. Qed.
Print Assumptions C18_calm_labels.

(** ... so a source-level step that does not enqueue the template cannot have changed anything the template
    depends on: calm is preserved. *)
Theorem C18_calm_quiet_step :
  forall (code : Type) (render : code -> data -> N -> rres) (scope_of : N -> option bool) (iv_res iv_opt : N)
         (w : world code) (s : step code) (w' : world code),
    calm render scope_of w ->
    (exists k d l, s = SPut k d l) \/ (exists k, s = SDel k) ->
    do_step render scope_of ns_escalation iv_res iv_opt w s = (w', OEnq false) -> calm render scope_of w'.
Proof. exact @calm_quiet_step. Qed.
Print Assumptions C18_calm_quiet_step.

(** quiescent_equals_render with a quiet suffix: any history, then a successful pass in which every source
    exists, then any number of source creations / edits / deletions with the worker running a pass only when
    a request is pending ([quiet_run]: it never found one). If no request is pending at the end, the target
    equals the template rendered with the sources as they are at the end - i.e. a change that is not
    propagated would have left a request in the queue. *)
Theorem C18_quiescent_after_quiet_suffix :
  forall (code : Type) (render : code -> data -> N -> rres) (scope_of : N -> option bool) (iv_res iv_opt : N)
         (w0 : world code) (ss suffix : list (step code)) (t : tmpl code),
    let wp := final render scope_of ns_escalation iv_res iv_opt w0 ss in
    let r := snd (pass render scope_of ns_escalation iv_res iv_opt wp) in
    let w1 := with_pending (fst (pass render scope_of ns_escalation iv_res iv_opt wp)) false in
    w_tmpl wp = Some t -> t_del t = false -> p_err r = 0 -> (exists t', w_tmpl w1 = Some t' /\ t_invalid t' = 0) ->
    (forall k d, In (k, d) (target_writes (p_evs r)) -> forall s, In s (t_sources t) -> nkey scope_of (src_key (t_ns t) s) <> k) ->
    (forall s, In s (t_sources t) -> lookup (nkey scope_of (src_key (t_ns t) s)) (w_store w1) <> None) ->
    quiet_run render scope_of iv_res iv_opt w1 suffix ->
    let w := final render scope_of ns_escalation iv_res iv_opt w0 (ss ++ [SPass] ++ suffix) in
    w_pending w = false ->
    exists t' k d o, w_tmpl w = Some t' /\ expected render scope_of t' (w_store w) (w_env w) = Some (k, d) /\
                     lookup k (w_store w) = Some o /\ follows (o_data o) d = true /\ o_lbl o = LTrue.
Proof. exact @quiescent_after_quiet_suffix. Qed.
Print Assumptions C18_quiescent_after_quiet_suffix.

(** Interleavings and faults INSIDE a pass. [passx a w] is the pass with a schedule [a] that, before the n-th API
    request of the pass (Get of the template, finalizer patch, per source uncached Get and label patch,
    Create / Update of the target, status update), lets third parties delete or modify objects and lets the
    request fail (NotFound, or Conflict / InternalError). For EVERY schedule: whatever such a pass writes
    is the template rendered with exactly the values it read - per source, in order, the data of the object
    as found in the cache or as returned by the successful label patch ([rs]); it writes at most once ... *)
Theorem C18_passx_writes_render_of_reads :
  forall (code : Type) (render : code -> data -> N -> rres) (scope_of : N -> option bool) (iv_res iv_opt : N)
         (a : adv) (w0 : world code) (ss : list (step code)) (t : tmpl code) (w' : world code) (r : pres) (rs : list (option data)),
    let w := final render scope_of ns_escalation iv_res iv_opt w0 ss in
    w_tmpl w = Some t -> passx render scope_of ns_escalation iv_res iv_opt a w = (w', r, rs) ->
    forall k d, In (k, d) (target_writes (p_evs r)) ->
      target_writes (p_evs r) = [(k, d)] /\
      exists cfg k0 body orefs,
        length rs = length (t_sources t) /\ cfg_of_reads (t_sources t) rs [] = Some cfg /\
        render (t_code t) cfg (w_env w) = RObj k0 body orefs /\ follows d body = true /\
        pf_violation scope_of ns_escalation (t_ns t) k0 orefs = false /\ k = eff_key (t_ns t) k0.
Proof. exact (fun code render scope_of iv_res iv_opt a w0 ss =>
                @passx_reads code render scope_of iv_res iv_opt a (final render scope_of ns_escalation iv_res iv_opt w0 ss)). Qed.
Print Assumptions C18_passx_writes_render_of_reads.

(** ... and [cfg_of_reads] exists only if every REQUIRED source was read and labelled in that pass: a required
    source that vanishes between the lookup and the label patch (or whose requests fail) rules out the write. *)
Theorem C18_required_sources_were_read :
  forall (srcs : list source) (rs : list (option data)) (cfg c : data),
    cfg_of_reads srcs rs cfg = Some c ->
    forall i s, nth_error srcs i = Some s -> s_opt s = false -> exists d, nth_error rs i = Some (Some d).
Proof. exact cfg_of_reads_required. Qed.
Print Assumptions C18_required_sources_were_read.

(** The environment of a render. [w_env] is what the template sees as .environment; [view (w_sink w)] is the
    environment stored by SetEnvironment amended with the HostedCluster that maps to the template's namespace
    NOW. Over every history (passes of this template, passes of other templates of the same controller in
    other namespaces [SAux], passes with faults, environment / HostedCluster changes) the two coincide: a
    render never depends on what earlier reconciles looked up. *)
Theorem C18_environment_fresh :
  forall (code : Type) (render : code -> data -> N -> rres) (scope_of : N -> option bool) (iv_res iv_opt : N)
         (ss : list (step code)) (w : world code),
    fresh w -> fresh (final render scope_of ns_escalation iv_res iv_opt w ss).
Proof. exact @fresh_history. Qed.
Print Assumptions C18_environment_fresh.

(** What another template of the same controller renders for the HyperShift part of its environment is a
    function of the sink state now and of ITS namespace, and such a pass leaves the world of this template alone. *)
Theorem C18_other_template_render :
  forall (code : Type) (render : code -> data -> N -> rres) (scope_of : N -> option bool) (iv_res iv_opt : N)
         (w : world code) (ns : N),
    do_step render scope_of ns_escalation iv_res iv_opt w (SAux ns) = (w, OAux (hval (w_sink w) ns)).
Proof. exact @aux_render. Qed.
Print Assumptions C18_other_template_render.

(** EnqueueWatchingObjects: whether a source event enqueues the template depends on the SET of owners the cache
    holds for the kind, not on the order in which it lists them, and not on owners other than the template
    (other templates of its kind, owners of other kinds that share the cache): every watcher of the handler's
    kind is enqueued whatever stands before it in the list. *)
Theorem C18_enqueue_order_irrelevant :
  forall (code : Type) (render : code -> data -> N -> rres) (scope_of : N -> option bool) (iv_res iv_opt : N)
         (w : world code) (wl : list (N * N)) (s : step code),
    Permutation.Permutation (w_watch w) wl -> (exists k d l, s = SPut k d l) \/ (exists k, s = SDel k) ->
    snd (do_step render scope_of ns_escalation iv_res iv_opt (with_watch w wl) s) =
    snd (do_step render scope_of ns_escalation iv_res iv_opt w s).
Proof. exact @enqueue_order_irrelevant. Qed.
Print Assumptions C18_enqueue_order_irrelevant.

Theorem C18_enqueue_ignores_other_owners :
  forall (kd kd' o' : N) (wl1 wl2 : list (N * N)), o' <> me ->
    watched kd me (wl1 ++ (kd', o') :: wl2) = watched kd me (wl1 ++ wl2).
Proof. exact enqueue_ignores_other_owners. Qed.
Print Assumptions C18_enqueue_ignores_other_owners.

(** Lifting: the observation a history makes at its last step is that step's result in the world the
    prefix leads to; so all clauses above speak about every step of every history. *)
Theorem C18_history_observation :
  forall (code : Type) (render : code -> data -> N -> rres) (scope_of : N -> option bool) (iv_res iv_opt : N)
         (w : world code) (ss : list (step code)) (s : step code),
    run render scope_of ns_escalation iv_res iv_opt w (ss ++ [s]) =
    run render scope_of ns_escalation iv_res iv_opt w ss ++
    [(snd (do_step render scope_of ns_escalation iv_res iv_opt (final render scope_of ns_escalation iv_res iv_opt w ss) s),
      fst (do_step render scope_of ns_escalation iv_res iv_opt (final render scope_of ns_escalation iv_res iv_opt w ss) s))].
Proof. exact @run_snoc. Qed.
Print Assumptions C18_history_observation.

(** The run-time monitor (all nine clauses on every step, no exception) accepts the model's own run of every
    scenario: no hypothesis on worlds or histories. *)
Theorem C18_monitor_sound :
  forall (ivres ivopt : N) (w : cworld) (ss : list cstep), monitor (model_case ivres ivopt w ss) = true.
Proof. exact monitor_sound. Qed.
Print Assumptions C18_monitor_sound.

(** ... and it is not vacuous: it rejects the run the model makes of the former witness with the old check. *)
Theorem C18_monitor_rejects_v0 :
  monitor (v0_case witness_world [SPass]) = false /\ agree (v0_case witness_world [SPass]) = false /\
  monitor (model_case 30 60 witness_world [SPass]) = true.
Proof. exact monitor_rejects_v0. Qed.
Print Assumptions C18_monitor_rejects_v0.

(** Non-vacuity: a history whose last step satisfies every hypothesis of the quiescence theorems
    (live template, successful pass, no self-write), with a missing
    optional source on the way (so the optional-retry hypothesis is satisfiable too), and the settled
    state it reaches. *)
Example C18_hypotheses_satisfiable :
  let wp := final render_code scope_tbl ns_escalation 30 60 sample_world [SPass; SPut (1, 1, 1) [(1, 6)] LAbsent] in
  let w := final render_code scope_tbl ns_escalation 30 60 sample_world sample_history in
  let r := snd (pass render_code scope_tbl ns_escalation 30 60 wp) in
  (exists t, w_tmpl wp = Some t /\ t_del t = false /\
     scan scope_tbl (pfbad scope_tbl (t_ns t)) (w_store wp) (t_ns t) (t_sources t) [] false = ScOk [(1, 6)] true) /\
  p_err r = 0 /\ p_requeue r = 60 /\ target_writes (p_evs r) = [((1, 1, 100), [(1, 6)])] /\
  (exists t', w_tmpl w = Some t' /\ t_invalid t' = 0 /\ expected render_code scope_tbl t' (w_store w) (w_env w) = Some ((1, 1, 100), [(1, 6)])).
Proof. exact sample_ok. Qed.
Print Assumptions C18_hypotheses_satisfiable.
