(** C13 (package rendering is deterministic and loses or duplicates no object): property theorems.
    This file contains statements only; every proof is `exact <lemma>`. *)
From Coq Require Import List NArith Bool Permutation Sorted.
From PKO Require Import Collector Templates CollectorProofs.
From PKOCorr Require Import C13Corr.
Import ListNotations.
Local Open Scope N_scope.

(** Map iteration order cannot matter for the collection stage: any two enumerations of the same
    pathObjectMap (paths pairwise different after the '/' -> NUL mapping of objects.go:106-107) give
    the same phases, for every manifest and every label values. *)
Theorem C13_render_perm_invariant :
  forall phases mname pname fs fs',
    Permutation fs fs' -> NoDup (map fkey fs) ->
    collect phases mname pname fs = collect phases mname pname fs'.
Proof. exact render_perm_invariant. Qed.
Print Assumptions C13_render_perm_invariant.

(** The same for map keys as they are: pairwise different paths without NUL bytes. *)
Theorem C13_render_perm_invariant_paths :
  forall phases mname pname fs fs',
    Permutation fs fs' -> NoDup (map f_path fs) -> Forall (fun f => ~ In 0 (f_path f)) fs ->
    collect phases mname pname fs = collect phases mname pname fs'.
Proof. exact render_perm_invariant_paths. Qed.
Print Assumptions C13_render_perm_invariant_paths.

(** sort.Slice is only specified to return a sorted permutation; every such result is [sort_paths]. *)
Theorem C13_any_sort_agrees :
  forall fs sorted, NoDup (map fkey fs) -> Permutation sorted fs -> StronglySorted fle sorted ->
    sorted = sort_paths fs.
Proof. exact any_sort_agrees. Qed.
Print Assumptions C13_any_sort_agrees.

(** Hence identical templates and identical hashes, whatever the hash function. *)
Theorem C13_hash_deterministic :
  forall (H : Type) (h : collector -> H) phases mname pname fs fs',
    Permutation fs fs' -> NoDup (map fkey fs) ->
    h (collect phases mname pname fs) = h (collect phases mname pname fs').
Proof. exact @hash_deterministic. Qed.
Print Assumptions C13_hash_deterministic.

(** Conservation: the multiset of collected objects is exactly the multiset of objects that passed
    the filters and whose phase annotation names a manifest phase (labels added, control
    annotations stripped): nothing lost, nothing duplicated. *)
Theorem C13_conservation :
  forall phases mname pname fs, NoDup phases ->
    Permutation (flat_map snd (collect phases mname pname fs))
      (map (fun o => strip_object (label_object mname pname o))
           (filter (in_manifest phases) (concat_objects fs))).
Proof. exact collect_conservation. Qed.
Print Assumptions C13_conservation.

(** ... and each of them sits in the phase its annotation names: an output phase holds exactly the
    objects naming it, and a manifest phase named by some object is present. *)
Theorem C13_conservation_phase :
  forall phases objs,
    (forall p l, In (p, l) (phase_collector phases objs) ->
                 In p phases /\ l = phase_objs p objs /\ l <> []) /\
    (NoDup phases -> forall p, In p phases -> phase_objs p objs <> [] ->
                 In (p, phase_objs p objs) (phase_collector phases objs)).
Proof. exact (fun phases objs => conj (phase_content phases objs) (fun H p => phase_present phases objs p H)). Qed.
Print Assumptions C13_conservation_phase.

(** Phases come in manifest order; phases no object names are dropped. *)
Theorem C13_phase_order :
  forall phases objs, NoDup phases ->
    map fst (phase_collector phases objs) = filter (fun p => existsb (phase_is p) objs) phases.
Proof. exact phase_order. Qed.
Print Assumptions C13_phase_order.

(** Objects of a phase stand in path-then-document order: files in the sorted order of their paths,
    documents of a file in document order. *)
Theorem C13_object_order :
  forall phases mname pname fs p l,
    In (p, l) (collect phases mname pname fs) ->
    l = map (fun o => strip_object (label_object mname pname o))
            (filter (phase_is p) (flat_map live_of_file (sort_paths fs))) /\
    StronglySorted fle (sort_paths fs) /\ Permutation (sort_paths fs) fs.
Proof. exact object_order. Qed.
Print Assumptions C13_object_order.

(** Package Operator control annotations are removed, all others kept, and an annotation map that
    became empty is nil. *)
Theorem C13_annotations_stripped :
  forall o,
    (forall k, In k control_keys -> has_key k (annos_of (strip_object o)) = false) /\
    (forall k, ~ In k control_keys -> lookup k (annos_of (strip_object o)) = lookup k (o_annos o)) /\
    oo_annos (strip_object o) <> Some [].
Proof. exact annotations_stripped. Qed.
Print Assumptions C13_annotations_stripped.

(** Package labels are added (they win over labels of the same name), all others kept. *)
Theorem C13_labels_added :
  forall mname pname o,
    lookup L_PACKAGE (o_labels (label_object mname pname o)) = Some mname /\
    lookup L_INSTANCE (o_labels (label_object mname pname o)) = Some pname /\
    (forall k, k <> L_PACKAGE -> k <> L_INSTANCE ->
       lookup k (o_labels (label_object mname pname o)) = lookup k (o_labels o)).
Proof. exact labels_added. Qed.
Print Assumptions C13_labels_added.

(** Every collected object is a live input object with exactly these two transformations applied. *)
Theorem C13_collect_objects :
  forall phases mname pname fs p l oo,
    In (p, l) (collect phases mname pname fs) -> In oo l ->
    exists o, In o (concat_objects fs) /\ phase_of o = p /\
              oo = strip_object (label_object mname pname o).
Proof. exact collect_objects. Qed.
Print Assumptions C13_collect_objects.

(** Template stage (template.go as of commit 10a6940). However Go enumerates pkg.Files - any two
    enumerations of the same map, paths pairwise different - the stage computes the same file map,
    for every template set, every suffix rule and every execution oracle; no hypothesis about what
    templates read or write. *)
Theorem C13_templates_deterministic :
  forall is_template strip exec fs fs',
    Permutation fs fs' -> NoDup (map fst fs) ->
    render_templates_fixed is_template strip exec fs = render_templates_fixed is_template strip exec fs'.
Proof. exact templates_order_independent. Qed.
Print Assumptions C13_templates_deterministic.

(** Purity. In the model the render context (configuration, images, environment, Package metadata)
    is a value handed to the execution oracle, and a render returns the file map and nothing else:
    the model's render IS a function of (context, files), so the same context and any enumeration
    of the same files give the same result however often it is rendered, and no render can change
    what the next one or the CEL filter stage sees. The Go code receives the context as maps it could
    write to; that it leaves them alone is not a theorem about the model but what the `ctx_unchanged`
    clause of C13Corr.monitor tests on the implementation (one context object is handed to all
    repeated renders of a package and its digest compared before and after). *)
Theorem C13_render_pure :
  forall (C : Type) is_template strip (exec : C -> N -> filelist -> option N) context fs fs',
    Permutation fs fs' -> NoDup (map fst fs) ->
    render_stage is_template strip exec context fs = render_stage is_template strip exec context fs'.
Proof. exact @render_stage_pure. Qed.
Print Assumptions C13_render_pure.

(** Exactly the packaged files named like templates are executed, each once; a path that only
    exists because a template wrote it is never executed, however it is named. *)
Theorem C13_templates_executed :
  forall is_template (strip : N -> N) fs,
    (forall p, In p (template_paths is_template fs) <-> In p (map fst fs) /\ is_template p = true) /\
    (NoDup (map fst fs) -> NoDup (template_paths is_template fs)) /\
    (forall q, ~ In (strip q) (map fst fs) -> ~ In (strip q) (template_paths is_template fs)).
Proof.
  exact (fun is_template strip fs =>
           conj (executed_are_packaged is_template fs)
                (conj (executed_once is_template fs) (output_never_executed is_template strip (fun _ _ => None) fs))).
Qed.
Print Assumptions C13_templates_executed.

(** The former witnesses under the fixed stage: both enumerations give a.yaml the packaged b.yaml;
    the double-suffix package renders. *)
Example C13_fixed_witness_values :
  at_path (render_templates_fixed Witness.is_template Witness.strip Witness.exec_fixed Witness.enum1) Witness.A_YAML
    = Some (Some Witness.STATIC) /\
  at_path (render_templates_fixed Witness.is_template Witness.strip Witness.exec_fixed Witness.enum2) Witness.A_YAML
    = Some (Some Witness.STATIC) /\
  at_path (render_templates_fixed Witness.is_template Witness.strip Witness.exec_fixed Witness.enum2) Witness.B_YAML
    = Some (Some Witness.RENDERED) /\
  at_path (render_templates_fixed InsertWitness.is_template InsertWitness.strip InsertWitness.exec_fixed
             InsertWitness.enum) InsertWitness.C_TMPL = Some (Some 20).
Proof. exact fixed_witness_values. Qed.
Print Assumptions C13_fixed_witness_values.

(** Historical record - defect fixed by 10a6940. The stage as it was before ([render_templates_v0]:
    templates executed in map order, `getFile` reading the map that receives the outputs) was NOT a
    function of the files: the witness {a.yaml.gotmpl: getFile "b.yaml"; b.yaml.gotmpl; b.yaml}
    rendered to two different a.yaml under two orders of the same map (finding F-C13, reproduced on
    the real code of that time: 200 renders, two outputs). *)
Theorem C13_v0_templates_refuted :
  exists is_template strip exec files order1 order2 k,
    Permutation order1 order2 /\ NoDup order1 /\
    at_path (render_templates_v0 is_template strip exec order1 files) k <>
    at_path (render_templates_v0 is_template strip exec order2 files) k.
Proof. exact v0_templates_refuted. Qed.
Print Assumptions C13_v0_templates_refuted.

(** Historical record - defect fixed by 10a6940: outputs were inserted into the map while it was
    ranged over, so a `x.gotmpl.gotmpl` file made the render fail or succeed depending on whether Go
    produced the new entry. *)
Theorem C13_v0_templates_refuted_insert :
  render_templates_v0 InsertWitness.is_template InsertWitness.strip InsertWitness.exec
                      InsertWitness.order_skipped InsertWitness.files <> None /\
  render_templates_v0 InsertWitness.is_template InsertWitness.strip InsertWitness.exec
                      InsertWitness.order_produced InsertWitness.files = None.
Proof. exact v0_templates_refuted_insert. Qed.
Print Assumptions C13_v0_templates_refuted_insert.

(** Historical record - defect fixed by 10a6940: what was true of the old stage, order independence
    under the hypothesis that no template reads a path another template writes (nothing enforced it). *)
Theorem C13_v0_templates_order_independent_partial :
  forall is_template strip exec,
    exec_extensional exec -> independent is_template strip exec -> strip_injective is_template strip ->
    forall o1 o2 m, Permutation o1 o2 ->
    forall k, at_path (render_templates_v0 is_template strip exec o1 m) k =
              at_path (render_templates_v0 is_template strip exec o2 m) k.
Proof. exact v0_templates_order_independent. Qed.
Print Assumptions C13_v0_templates_order_independent_partial.

(** The hypotheses of that partial theorem are satisfiable. *)
Example C13_v0_independence_satisfiable :
  exec_extensional (fun p _ => Some p) /\
  independent (fun _ => true) (fun p => p + 100) (fun p _ => Some p) /\
  strip_injective (fun _ => true) (fun p => p + 100).
Proof. exact independence_satisfiable. Qed.
Print Assumptions C13_v0_independence_satisfiable.

(** The template correspondence does not depend on the order in which the files were listed. *)
Theorem C13_tmodel_enum_invariant :
  forall init init' tmpls striptab final,
    Permutation init init' -> NoDup (map fst init) ->
    tmodel (init, tmpls, striptab, final) = tmodel (init', tmpls, striptab, final).
Proof. exact tmodel_enum_invariant. Qed.
Print Assumptions C13_tmodel_enum_invariant.

(** The run-time monitor used on the implementation's output accepts every output of the model. *)
Theorem C13_monitor_sound :
  forall phases mname pname fs expected, NoDup phases ->
    monitor ((phases, mname, pname, fs), (true, true, model (phases, mname, pname, fs)), expected) = true.
Proof. exact monitor_sound. Qed.
Print Assumptions C13_monitor_sound.
