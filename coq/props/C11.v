(** C11 — No write before preflight passes, and never outside the owner's namespace. Statements only. *)
From Coq Require Import List NArith ZArith Bool.
From PKO Require Import Base Owner Api Phase PhaseProofs TeardownProofs PreflightProofs ObjectSet ObjectSetProofs.
Import ListNotations.
Local Open Scope N_scope.

(** Any violating object anywhere in a phase (unknown API, ownerReferences of its own, namespace rule,
    rejected by the dry run), at any position, for every controller flavour: the pass over that phase
    writes nothing and the world is unchanged. *)
Theorem C11_preflight_gate :
  forall c between w ow prev class ps p,
    In p ps -> preflight_obj (c_flavor c) ow class p <> [] ->
    exists vs, reconcile_phase c between w ow prev class ps = (w, [], PhPreflight vs) /\ vs <> [].
Proof. exact phase_preflight_gate. Qed.
Print Assumptions C11_preflight_gate.

Theorem C11_writes_imply_all_passed_preflight :
  forall c between w ow prev class ps w' evs r,
    reconcile_phase c between w ow prev class ps = (w', evs, r) -> evs <> [] ->
    forall p, In p ps -> preflight_obj (c_flavor c) ow class p = [].
Proof. exact phase_writes_imply_preflight. Qed.
Print Assumptions C11_writes_imply_all_passed_preflight.

(** An ObjectSet listing the same object twice (same identity after the namespace default) writes none
    of its objects. *)
Theorem C11_duplicate_writes_nothing :
  forall force sw k ns n mem0 sw' evs r,
    find_set (sw_sets sw) k ns n = Some mem0 -> is_active mem0 ->
    dup_count [] (map (spec_key mem0) (all_objects mem0)) <> O ->
    objectset_pass force sw k ns n = (sw', evs, r) ->
    member_evs evs = [] /\ w_store (sw_w sw') = w_store (sw_w sw).
Proof. exact C11_duplicate_writes_nothing. Qed.
Print Assumptions C11_duplicate_writes_nothing.

(** Namespaced ObjectSets and same-cluster ObjectSetPhases never create or modify cluster-scoped objects
    or objects in another namespace ... *)
Theorem C11_rollout_namespace_bound :
  forall c between w ow prev ps w' evs r,
    ns_bound_flavor (c_flavor c) = true -> oi_ns (ow_id ow) <> 0 ->
    reconcile_phase c between w ow prev false ps = (w', evs, r) ->
    Forall (fun e => k_ns (ev_key e) = oi_ns (ow_id ow) /\ gk_scope (k_gk (ev_key e)) = Some true) evs.
Proof. exact phase_writes_ns_bound. Qed.
Print Assumptions C11_rollout_namespace_bound.

(** ... nor delete or release them during teardown. *)
Theorem C11_teardown_namespace_bound :
  forall c between ow ps w alldone w' evs r,
    ns_bound_flavor (c_flavor c) = true -> oi_ns (ow_id ow) <> 0 ->
    teardown_objects c between w ow ps alldone = (w', evs, r) ->
    Forall (fun e => k_ns (ev_key e) = oi_ns (ow_id ow) /\ gk_scope (k_gk (ev_key e)) = Some true) evs.
Proof. exact teardown_writes_ns_bound. Qed.
Print Assumptions C11_teardown_namespace_bound.

(** The phase-level rollout monitor (preflight gate + namespace bound, coq/corr/PhaseMonitors.v m11p)
    accepts every rollout pass of the model, for every flavour and any third-party activity. *)
From PKOCorr Require Import PhaseCorr PhaseMonitors C05Sound PhaseMonSound.
Theorem C11_phase_monitor_sound : forall c : pcase, pc_teardown c = false -> m11p (set_obs c (model_run c)) = true.
Proof. exact m11p_rollout_sound. Qed.
Print Assumptions C11_phase_monitor_sound.

(** The fault-stage monitor (m11f: the dry run of some object was not accepted => the rollout pass writes nothing)
    accepts every rollout of the model. *)
Theorem C11_fault_monitor_sound : forall c : pcase, pc_teardown c = false -> m11f (set_obs c (model_run c)) = true.
Proof. exact m11f_sound. Qed.
Print Assumptions C11_fault_monitor_sound.

(** The controller-level monitors of C11 (coq/corr/SetMonitors.v) accept every pass of the model.
    m11r ("violations are retried": an active pass of an ObjectSet with a revision that lists an object twice, or
    whose first in-process phase violates preflight, ends with a requeue or an error). *)
From PKOCorr Require Import SetCorr SetMonitors SetMonSound SetMonSound2.
Theorem C11_set_monitor_retry_sound : forall c : scase, m11r (set_obs_s c (SetCorr.model_run c)) = true.
Proof. exact m11r_sound. Qed.
Print Assumptions C11_set_monitor_retry_sound.

(** m11 (all three clauses: the same object listed twice => no member request; a namespaced ObjectSet never has a
    member request outside its namespace or on a cluster-scoped kind, in rollout and teardown alike; every member
    request of an active pass names an object of a local phase all of whose objects pass preflight). *)
Theorem C11_set_monitor_sound : forall c : scase, m11 (set_obs_s c (SetCorr.model_run c)) = true.
Proof. exact m11_sound. Qed.
Print Assumptions C11_set_monitor_sound.
