(** C01 — Collision protection: foreign objects are never taken over unasked.
    Statements only; every proof is [exact <lemma>]. Model: theories/Owner.v, Api.v, Phase.v.
    [permitted] is the property's wording of "adoption is permitted" (AdoptionProofs.v). *)
From Coq Require Import List NArith ZArith Bool.
From PKO Require Import Base Owner Api Phase AdoptionProofs PhaseProofs AdoptProofs.
Import ListNotations.

(** The decision ladder is the property's predicate, for every object state, owner, previous list,
    collisionProtection value, both owner strategies and forced adoption on or off. *)
Theorem C01_adopt_iff_permitted :
  forall s force ow o prev cp, is_controller s (ow_id ow) o = false ->
    (check_adoption s force ow o prev cp = Adopt <-> permitted s force ow o prev cp = true).
Proof. exact check_adopt_iff. Qed.
Print Assumptions C01_adopt_iff_permitted.

Theorem C01_refusal_iff :
  forall s force ow o prev cp, is_controller s (ow_id ow) o = false ->
    (is_refusal (check_adoption s force ow o prev cp) = true <->
     permitted s force ow o prev cp = false /\ newer ow o = false /\ rev_unparsable o = false).
Proof. exact check_refuse_iff. Qed.
Print Assumptions C01_refusal_iff.

Theorem C01_newer_left_alone_iff :
  forall s force ow o prev cp, is_controller s (ow_id ow) o = false ->
    (check_adoption s force ow o prev cp = LeaveNewer <-> newer ow o = true).
Proof. exact check_leave_iff. Qed.
Print Assumptions C01_newer_left_alone_iff.

(** Every write request of a rollout pass over any phase, in any world, with any third party acting
    between the pass's reads and writes, is an apply on a listed object issued by an unpaused owner and
    justified by the version the pass read: absent, already controlled, or adoption permitted. *)
Theorem C01_every_write_justified :
  forall c between ow prev ps w acc failed w' evs r,
    reconcile_objects c between w ow prev ps acc failed = (w', evs, r) ->
    Forall (ev_justified c ow prev ps) evs.
Proof. exact rec_objs_justified. Qed.
Print Assumptions C01_every_write_justified.

(** An existing object that is not controlled and may not be adopted under any entry naming it is
    byte-identical after the pass and no request names it (pass-level atomicity). *)
Theorem C01_untouched :
  forall c ow prev k o ps w acc failed w' evs r,
    reconcile_objects c idw w ow prev ps acc failed = (w', evs, r) ->
    lookup k (w_store w) = Some o -> is_controller (flavor_strat (c_flavor c)) (ow_id ow) o = false ->
    not_permitted_any c ow prev ps k o ->
    lookup k (w_store w') = Some o /\ Forall (fun e => ev_key e <> k) evs.
Proof. exact rec_objs_untouched. Qed.
Print Assumptions C01_untouched.

(** The refusal is reported: a pass that completes had nothing to refuse, and a collision error is
    returned only for an object that had to be refused (it is turned into
    Available=False/CollisionDetected by UpdateObjectSetOrPhaseStatusFromError, see C06/ObjectSet level). *)
Theorem C01_completed_pass_refused_nothing :
  forall c ow prev ps w acc failed w' evs a f,
    reconcile_objects c idw w ow prev ps acc failed = (w', evs, PhOk a f) ->
    ow_paused ow = false -> NoDup (map (key_of ow) ps) ->
    forall p o, In p ps -> lookup (key_of ow p) (w_store w) = Some o -> ~ must_refuse c ow prev p o.
Proof. exact rec_objs_ok_no_refusal. Qed.
Print Assumptions C01_completed_pass_refused_nothing.

Theorem C01_collision_error_sound :
  forall c ow prev ps w acc failed w' evs e,
    reconcile_objects c idw w ow prev ps acc failed = (w', evs, PhErr e) ->
    (e = ErrNotPrevious \/ e = ErrRevCollision) -> NoDup (map (key_of ow) ps) ->
    exists p o, In p ps /\ lookup (key_of ow p) (w_store w) = Some o /\ must_refuse c ow prev p o.
Proof. exact rec_objs_collision_sound. Qed.
Print Assumptions C01_collision_error_sound.

(** Conversely a permitted adoption is carried out: after a completed pass the object is controlled by
    the owner (well-formed owner list: unique UIDs, UIDs identify owners). *)
Theorem C01_permitted_adoption_carried_out :
  forall c ow prev ps w acc failed w' evs a f,
    reconcile_objects c idw w ow prev ps acc failed = (w', evs, PhOk a f) ->
    ow_paused ow = false -> NoDup (map (key_of ow) ps) ->
    forall p o, In p ps ->
      (match flavor_strat (c_flavor c) with Native => validate_owner (ow_id ow) (k_ns (key_of ow p)) = true | Annot => True end) ->
      lookup (key_of ow p) (w_store w) = Some o ->
      is_controller (flavor_strat (c_flavor c)) (ow_id ow) o = false ->
      permitted (flavor_strat (c_flavor c)) (c_force c) ow o prev (po_cp p) = true ->
      obj_wf (flavor_strat (c_flavor c)) (ow_id ow) o ->
      exists o', lookup (key_of ow p) (w_store w') = Some o' /\ adopted c ow o o'.
Proof. exact rec_objs_adopt. Qed.
Print Assumptions C01_permitted_adoption_carried_out.

(** Non-vacuity: a concrete foreign-controlled ConfigMap under Prevent is refused, under None adopted. *)
Example C01_example_refuse_and_adopt :
  let ow := {| ow_id := {| oi_kind := 1; oi_ns := 1; oi_name := 10; oi_uid := 100 |}; ow_rev := 5; ow_paused := false; ow_pkg := 0 |} in
  let o := {| o_uid := 7; o_rv := 3; o_gen := 1; o_owners := [{| r_kind := 9; r_name := 50; r_uid := 500; r_ctrl := true |}];
              o_aowners := []; o_rev := RevNum 4; o_cache := true; o_pkg := 0; o_body := 2; o_avail := 0; o_obsgen := None;
              o_deleting := false; o_fin := false |} in
  check_adoption Native false ow o [] CPPrevent = RefuseNotPrevious /\
  check_adoption Native false ow o [] CPNone = Adopt /\
  permitted Native false ow o [] CPPrevent = false /\ permitted Native false ow o [] CPNone = true.
Proof. vm_compute. repeat split. Qed.

(** The monitor evaluated on the implementation's passes (coq/corr/C01Corr.v: every write justified;
    non-permitted objects untouched; refusal reported; permitted adoption carried out) accepts every
    pass of the model — rollout and teardown, every world, phase, owner, strategy, forced adoption on or
    off, with or without third-party activity between read and write. *)
From PKOCorr Require Import PhaseCorr C01Corr C05Sound C01Sound.
Theorem C01_monitor_sound : forall c : pcase, C01Corr.monitor (set_obs c (model_run c)) = true.
Proof. exact C01Sound.monitor_sound. Qed.
Print Assumptions C01_monitor_sound.

(** m3r: where no third party acts, the implementation must return a collision error (what becomes
    Available=False/CollisionDetected) whenever the model's pass does, i.e. (C01_collision_error_sound) whenever the phase
    loop reaches a listed object that must be refused; the clause accepts every pass of the model. *)
Theorem C01_refusal_report_monitor_sound : forall c : pcase, C01Corr.m3r (set_obs c (model_run c)) = true.
Proof. exact C01Sound.m3r_sound. Qed.
Print Assumptions C01_refusal_report_monitor_sound.

(** C01 at the controller level (coq/corr/SetMonitors.v m01: a collision is reported as
    Available=False/CollisionDetected for the generation read, or the stored condition is re-sent unchanged):
    the monitor accepts every pass of the ObjectSet controller model. *)
From PKO Require Import ObjectSet.
From PKOCorr Require Import SetCorr SetMonitors SetMonSound SetMonSound2.
Theorem C01_set_monitor_report_sound : forall c : scase, m01 (set_obs_s c (SetCorr.model_run c)) = true.
Proof. exact m01_sound. Qed.
Print Assumptions C01_set_monitor_report_sound.

(** m01c (a collision is reported only for a refusal: some listed object exists, is not controlled and may not be
    adopted) and m01s (m01, m01c and the phase-level monitors C01Corr m1 / m2 on the member requests of an active pass
    of an ObjectSet with a revision, with the previous revisions the stored ObjectSets give) accept every pass of the
    model; no well-formedness hypothesis is needed. *)
Theorem C01_set_monitor_collision_sound : forall c : scase, m01c (set_obs_s c (SetCorr.model_run c)) = true.
Proof. exact m01c_sound. Qed.
Print Assumptions C01_set_monitor_collision_sound.

Theorem C01_set_monitor_sound : forall c : scase, m01s (set_obs_s c (SetCorr.model_run c)) = true.
Proof. exact m01s_sound. Qed.
Print Assumptions C01_set_monitor_sound.
