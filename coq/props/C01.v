(** C01 property theorems (to be filled). *)
From PKO Require Import Base.
