(** C20 (concurrent image pulls are de-duplicated without losing or sharing results):
    property theorems.  Statements only; every proof is `exact <lemma>`.

    [run steps] is the RequestManager model after the critical sections [steps] (any number of
    callers and images, any interleaving of handleRequest / handleResponse critical sections).
    [wf steps]: a [Done img] happens only while a pull for [img] is running, i.e. after at least one
    [Req _ img] since the previous [Done img] - the only way handleResponse is ever called.

    What these theorems do NOT say by themselves: that the Go code's two lock scopes really are
    atomic.  A step of the model is a whole critical section; if handleResponse gave up the lock
    between reading the entry, broadcasting and deleting it, the model would not describe the code.
    That is what the OVERLAPPING runs of the correspondence check test: the harness stalls the
    broadcast of the real handleResponse at a known point, issues a Pull for the same image
    meanwhile, and requires the joint observation to be linearizable against this sequential model
    ([lin_agree] in C20Corr.v: equal to the model's outcome for Done;Req or Req;Done) and to satisfy
    the property monitor in one of the two orders.  Likewise [C20_private_copies] is a statement
    about copy *identities* in the model; on the Go side "private" means no shared memory, which is
    what the aliasing probe of the harness tests (in-place writes, appends into spare capacity, key
    insertion/deletion on every returned Files map, backing-array comparison, -race in thorough). *)
From Coq Require Import List NArith Bool Lia.
From PKO Require Import ReqMgr ReqMgrProofs.
From PKOCorr Require Import C20Corr.
Import ListNotations.
Local Open Scope N_scope.

(** (a) At every point [p] of every well-formed schedule [p ++ q] and for every image: either the
    image has an entry and exactly one started pull has not finished, or it has no entry and all
    started pulls have finished.  So "pulls started - pulls finished" is always 0 or 1. *)
Theorem C20_one_pull_in_flight :
  forall p q, wf (p ++ q) = true -> forall img,
    let s := run p in
    (inflight s img <> None /\ count_started img (log s) = S (count_done img p)) \/
    (inflight s img = None /\ count_started img (log s) = count_done img p).
Proof. exact one_pull_in_flight. Qed.
Print Assumptions C20_one_pull_in_flight.

(** (a') A request starts a pull exactly when nobody is waiting for its image (no [Req] since the
    last [Done] of the image), and the pull gets a number never used before. *)
Theorem C20_pull_started_iff_nobody_waiting :
  forall steps c img,
    let s := run steps in
    log (run (steps ++ [Req c img])) =
      log s ++ (if is_nilb (waiting img (rev steps)) then [PullStarted img (next s)] else []) /\
    ~ In (next s) (pullnos (log s)).
Proof. exact req_step. Qed.
Print Assumptions C20_pull_started_iff_nobody_waiting.

(** (b) Accounting at every point of every schedule: requests (c, img) so far = responses (c, img)
    so far + those still waiting since the last [Done img].  Hence no request is answered twice,
    none is dropped, and nothing is answered that was not requested. *)
Theorem C20_request_accounting :
  forall steps c img,
    count_req c img steps =
    (count_resp c img (log (run steps)) + count_in c (waiting img (rev steps)))%nat.
Proof. exact request_accounting. Qed.
Print Assumptions C20_request_accounting.

(** (b) A [Done img res] sends exactly one response to every caller waiting for [img], in
    registration order, carrying [res] and the number of the pull running for [img]; afterwards
    nobody waits for [img] and the entry is gone.  (A [Req] step sends no response: see (a').) *)
Theorem C20_done_answers_all_waiting :
  forall steps img res,
    log (run (steps ++ [Done img res])) =
      log (run steps) ++ match last_started img (log (run steps)) with
                         | Some n => broadcast img n res 0 (waiting img (rev steps))
                         | None => []
                         end /\
    waiting img (rev (steps ++ [Done img res])) = [] /\
    inflight (run (steps ++ [Done img res])) img = None.
Proof. exact done_step. Qed.
Print Assumptions C20_done_answers_all_waiting.

(** (b) Position form: the request at position |p| is unanswered until the next [Done] of its
    image and answered (like all earlier requests of the same caller and image) right after it. *)
Theorem C20_exactly_one_response :
  forall p c img q res, (forall r, ~ In (Done img r) q) ->
    let before := p ++ Req c img :: q in
    let after := before ++ [Done img res] in
    (count_resp c img (log (run before)) < count_req c img before)%nat /\
    count_resp c img (log (run after)) = count_req c img after /\
    count_req c img after = count_req c img before.
Proof. exact exactly_one_response. Qed.
Print Assumptions C20_exactly_one_response.

Theorem C20_no_response_without_request :
  forall steps c img, (count_resp c img (log (run steps)) <= count_req c img steps)%nat.
Proof. exact no_spurious_response. Qed.
Print Assumptions C20_no_response_without_request.

(** Context cancellation.  Schedules may contain [Cancel c] steps anywhere (every theorem above and
    below quantifies over them).  On the code as it is, Pull never looks at its context while it
    waits, so a cancel changes nothing: the caller stays registered and - by (b) - is answered by the
    next [Done] of its image.  The run-time monitor is more liberal than the model here: a cancelled
    caller may also return early with its context's error and is then exempt from "answered exactly
    once"; all other waiting callers are not, and after every [Done] the image must have no entry. *)
Theorem C20_cancel_is_noop :
  forall steps c,
    log (run (steps ++ [Cancel c])) = log (run steps) /\
    next (run (steps ++ [Cancel c])) = next (run steps) /\
    forall img, inflight (run (steps ++ [Cancel c])) img = inflight (run steps) img /\
                waiting img (rev (steps ++ [Cancel c])) = waiting img (rev steps).
Proof. exact cancel_step. Qed.
Print Assumptions C20_cancel_is_noop.

(** The path BEFORE the request machine.  Pull = registry-host override step, then the machine on the
    rewritten image: [Req c img] is a Pull whose override step succeeded with [img], [Fail c] one whose
    override step failed.  A failing override answers the caller at once with the error, changes
    nothing in the manager and starts no pull; every such call gets exactly one such answer.  (That a
    Go Pull returns exactly one of (package, nil) / (nil, err) on either path is what the harness
    classifies for every call; "neither" or "both" is a concrete violation.) *)
Theorem C20_override_failure_is_answered_and_pulls_nothing :
  forall steps c,
    log (run (steps ++ [Fail c])) = log (run steps) ++ [Rejected c] /\
    next (run (steps ++ [Fail c])) = next (run steps) /\
    pullnos (log (run (steps ++ [Fail c]))) = pullnos (log (run steps)) /\
    forall img, inflight (run (steps ++ [Fail c])) img = inflight (run steps) img /\
                count_started img (log (run (steps ++ [Fail c]))) = count_started img (log (run steps)).
Proof. exact fail_step. Qed.
Print Assumptions C20_override_failure_is_answered_and_pulls_nothing.

Theorem C20_override_failure_accounting :
  forall steps c, count_rejected c (log (run steps)) = count_fail c steps.
Proof. exact fail_accounting. Qed.
Print Assumptions C20_override_failure_accounting.

(** (c) All package copies ever handed out have pairwise distinct identities (one DeepCopy per
    receiver).  Whether DeepCopy really yields disjoint memory is tested by the aliasing probe. *)
Theorem C20_private_copies :
  forall steps, NoDup (copies (log (run steps))).
Proof. exact private_copies. Qed.
Print Assumptions C20_private_copies.

(** (d) A request that finds no entry starts a pull with a fresh number and is its first receiver ... *)
Theorem C20_fresh_when_no_entry :
  forall steps c img, inflight (run steps) img = None ->
    let s := run steps in let s' := run (steps ++ [Req c img]) in
    log s' = log s ++ [PullStarted img (next s)] /\
    ~ In (next s) (pullnos (log s)) /\
    inflight s' img = Some {| e_pull := next s; e_recv := [c] |}.
Proof. exact fresh_when_no_entry. Qed.
Print Assumptions C20_fresh_when_no_entry.

(** ... in particular the first request after a broadcast (no window in which it could register
    on the old entry and wait forever). *)
Theorem C20_fresh_after_broadcast :
  forall steps img res c,
    let s := run (steps ++ [Done img res]) in
    let s' := run (steps ++ [Done img res; Req c img]) in
    log s' = log s ++ [PullStarted img (next s)] /\
    ~ In (next s) (pullnos (log s)) /\
    inflight s' img = Some {| e_pull := next s; e_recv := [c] |}.
Proof. exact fresh_after_broadcast. Qed.
Print Assumptions C20_fresh_after_broadcast.

(** The run-time monitor used on the implementation's observation accepts the model's
    observation of every well-formed schedule ... *)
Theorem C20_monitor_sound :
  forall steps, wf steps = true -> monitor (map Plain steps, model_obs steps) = true.
Proof. exact monitor_sound. Qed.
Print Assumptions C20_monitor_sound.

(** ... and, for schedules with overlapping steps, the model's observation of every linearisation
    (every choice of which of the two overlapping operations took effect first). *)
Theorem C20_monitor_sound_lin :
  forall ls, monitor (map forget ls, model_lobs ls) = true.
Proof. exact monitor_sound_lin. Qed.
Print Assumptions C20_monitor_sound_lin.

(** The linearizability judgement accepts every sequential behaviour of the model. *)
Theorem C20_lin_agree_model :
  forall ls, lin_agree (map forget ls, model_lobs ls) = true.
Proof. exact lin_agree_model. Qed.
Print Assumptions C20_lin_agree_model.

(** The hypotheses are satisfiable by a non-trivial schedule: three callers, two images,
    joined pulls, a cancelled waiter, an error result, a request right after a broadcast. *)
Example C20_wf_example :
  let steps := [Req 0 0; Req 1 0; Req 2 1; Cancel 1; Done 0 true; Req 0 0; Done 1 false; Req 2 0; Done 0 true] in
  wf steps = true /\
  log (run steps) =
    [PullStarted 0 0; PullStarted 1 1;
     Response 0 0 0 true (Some (0, 0)); Response 1 0 0 true (Some (0, 1));
     PullStarted 0 2; Response 2 1 1 false None;
     Response 0 0 2 true (Some (2, 0)); Response 2 0 2 true (Some (2, 1))].
Proof. exact (conj eq_refl eq_refl). Qed.
Print Assumptions C20_wf_example.
