(** C15 — Delegating a phase to an ObjectSetPhase preserves behaviour. Statements only.
    Models: ObjectSet.v (remote phase reconciler inside GenericObjectSetController.Reconcile),
    PhaseController.v (GenericObjectSetPhaseController.Reconcile), Phase.v (the shared PhaseReconciler). *)
From Coq Require Import List NArith ZArith Bool.
From PKO Require Import Base Owner Api Phase PhaseProofs ObjectSet ObjectSetProofs PhaseController RenameProofs DelegationProofs.
Import ListNotations.
Local Open Scope N_scope.

(** ** The phase object carries the phase *)

(** The desired ObjectSetPhase of a phase carries the phase's objects, the ObjectSet's revision, previous
    revisions, paused state and package label, the class, and one owner reference: the controller reference to
    the ObjectSet. (Probes: copied verbatim; all scenarios use one probe set, which the harness compares.) *)
Theorem C15_desired_phase_carries : forall s ph, carries s ph (desired_phase s ph).
Proof. exact desired_phase_carries. Qed.
Print Assumptions C15_desired_phase_carries.

(** Whatever phase object a Reconcile pass of the ObjectSet creates is the one of a delegated phase of that
    ObjectSet, carries that phase (w.r.t. the ObjectSet as held in memory: same spec, revision computed), is
    controlled by the ObjectSet, and is created under a name for which no phase object existed. *)
Theorem C15_created_phase_carries :
  forall force sw k ns n mem0 sw' evs r nm p,
    find_set (sw_sets sw) k ns n = Some mem0 -> is_active mem0 ->
    objectset_pass force sw k ns n = (sw', evs, r) ->
    In (SPhase (PCreate nm (Some p))) evs ->
    exists mem1 ph, same_spec mem1 mem0 /\ In ph (os_phases mem0) /\ ph_class ph = true /\ nm = pobj_name mem0 ph /\
      carries mem1 ph p /\ controlled_by_uid (op_owners p) (oi_uid (os_id mem0)) = true /\
      find_phase (sw_phases sw) (phase_kind mem0) (oi_ns (os_id mem0)) nm = None.
Proof. exact created_phase_carries. Qed.
Print Assumptions C15_created_phase_carries.

(** The paused state is carried along: whenever the remote phase reconciler gets past a phase object, that
    object's spec.paused equals the ObjectSet's paused state afterwards (it is patched otherwise). *)
Theorem C15_paused_carried :
  forall sw s ph rem sw1 e1 rem1 active failed,
    remote_reconcile sw s ph rem = (sw1, e1, rem1, RROk active failed) ->
    exists cur, phase_obj_of sw1 s ph = Some cur /\ op_paused cur = lifecycle_eqb (os_life s) LPaused.
Proof. exact paused_carried_step. Qed.
Print Assumptions C15_paused_carried.

(** ** Exactly one phase object, from rollout until teardown *)

(** One active pass: a phase object is created only for a delegated phase of this ObjectSet, under a free name,
    exists afterwards (the creating pass ends with the error of remotephase_reconciler.go:149); and no existing
    phase object is removed or replaced — identity incl. uid, owner references, labels, revision, previous and
    objects stay. *)
Theorem C15_active_pass_phase_objects :
  forall force sw k ns n mem0 sw' evs r,
    find_set (sw_sets sw) k ns n = Some mem0 -> is_active mem0 ->
    objectset_pass force sw k ns n = (sw', evs, r) ->
    (forall nm, creates nm evs ->
       find_phase (sw_phases sw) (phase_kind mem0) (oi_ns (os_id mem0)) nm = None /\
       (exists p, find_phase (sw_phases sw') (phase_kind mem0) (oi_ns (os_id mem0)) nm = Some p) /\ r = SError /\
       exists ph, In ph (os_phases mem0) /\ ph_class ph = true /\ nm = pobj_name mem0 ph) /\
    (forall kind pns name p, find_phase (sw_phases sw) kind pns name = Some p ->
       exists p', find_phase (sw_phases sw') kind pns name = Some p' /\ core_eq p p').
Proof. exact active_pass_phase_objects. Qed.
Print Assumptions C15_active_pass_phase_objects.

(** Over every history of active ObjectSet passes (any ObjectSets, any order): each phase object name is created
    by at most one pass, and from that pass on a phase object of that name exists. *)
Theorem C15_one_phase_object :
  forall force sw hist sw' kind pns nm,
    apasses force sw hist sw' ->
    forall before st after, hist = before ++ st :: after -> step_creates kind pns nm st ->
      Forall (fun st' => ~ step_creates kind pns nm st') after /\
      exists p, find_phase (sw_phases sw') kind pns nm = Some p.
Proof. exact one_phase_object. Qed.
Print Assumptions C15_one_phase_object.

(** ** The relay *)

(** The remote phase reconciler answers "no failure" only for a phase object — the one it read or the one its
    pause patch returned — whose Available condition is True for that object's current generation. *)
Theorem C15_relay_generation_step :
  forall sw s ph rem sw1 e1 rem1 active,
    remote_reconcile sw s ph rem = (sw1, e1, rem1, RROk active false) ->
    exists cur, phase_read e1 (pobj_name s ph) cur /\ avail_current cur /\ active = op_ctrlof cur /\
                phase_obj_of sw1 s ph = Some cur.
Proof. exact relay_generation_step. Qed.
Print Assumptions C15_relay_generation_step.

Theorem C15_relay_stale_is_failure :
  forall cur cd,
    find_cond (op_conds cur) CAvailable = Some cd -> cd_gen cd <> op_gen cur -> relay cur = RROk (op_ctrlof cur) true.
Proof. exact relay_stale_is_failure. Qed.
Print Assumptions C15_relay_stale_is_failure.

(** The ObjectSet (newly) reports Available=True only in a pass in which, for every delegated phase, the phase
    object read in THIS pass is controlled by this ObjectSet and carries Available=True with observedGeneration
    equal to its generation. *)
Theorem C15_relay_generation :
  forall force sw k ns n mem0 sw' evs r rev conds ctrlof rem fph ok cd,
    find_set (sw_sets sw) k ns n = Some mem0 -> is_active mem0 ->
    objectset_pass force sw k ns n = (sw', evs, r) ->
    In (SMeta (MStatus rev conds ctrlof rem fph ok)) evs ->
    find_cond conds CAvailable = Some cd -> cd_status cd = STrue ->
    find_cond (os_conds mem0) CAvailable <> Some cd ->
    forall q, In q (os_phases mem0) -> ph_class q = true ->
      exists cur, own_phase_read mem0 evs q cur /\ avail_current cur.
Proof. exact relay_generation. Qed.
Print Assumptions C15_relay_generation.

(** C03 extended to mixed phase lists: if any request of an active pass writes to a phase — a member object of
    a local phase, or (create / pause patch) the phase object of a delegated one — then every earlier phase is
    complete after the pass: all objects of an earlier local phase present and passing the probe, the phase
    object of an earlier delegated phase carrying Available=True for its current generation. Only hypothesis on
    the spec: the delegated phases have distinct names (object keys: the duplicate check of the pass). *)
Theorem C15_rollout_gated_mixed :
  forall force sw k ns n mem0 sw' evs r,
    find_set (sw_sets sw) k ns n = Some mem0 -> is_active mem0 -> phase_names_nodup mem0 ->
    objectset_pass force sw k ns n = (sw', evs, r) ->
    forall pre ph post, os_phases mem0 = pre ++ ph :: post ->
      Exists (touches mem0 (as_owner mem0) ph) evs ->
      forall q, In q pre -> phase_done sw' mem0 (as_owner mem0) q.
Proof. exact relay_gates_rollout. Qed.
Print Assumptions C15_rollout_gated_mixed.

(** The loop itself, for any mixed phase list. *)
Theorem C15_phase_loop_gated_mixed :
  forall force s ow prev phs sw acc rem sw' evs rem' r,
    reconcile_phases_m force sw s ow prev phs acc rem = (sw', evs, rem', r) ->
    NoDup (local_keys ow phs) -> NoDup (delegated_names s phs) ->
    forall pre ph post, phs = pre ++ ph :: post ->
      Exists (touches s ow ph) evs ->
      forall q, In q pre -> phase_done sw' s ow q.
Proof. exact rpm_gate. Qed.
Print Assumptions C15_phase_loop_gated_mixed.

(** ** Teardown *)

(** A delegated phase counts as done only in a state in which its phase object is absent or not controlled by
    the ObjectSet; that step changes nothing and sends no write; a step that deletes the phase object (or strips
    its finalizers) answers "not done". *)
Theorem C15_teardown_waits_step :
  forall sw s ph sw1 e1,
    remote_teardown sw s ph = (sw1, e1, TdOk true) ->
    sw1 = sw /\ remote_gone sw s ph /\ Forall (fun e => ~ is_write_on (pobj_name s ph) e) e1.
Proof. exact teardown_waits_step. Qed.
Print Assumptions C15_teardown_waits_step.

Theorem C15_teardown_delete_not_done :
  forall sw s ph sw1 e1 r,
    remote_teardown sw s ph = (sw1, e1, r) -> Exists (is_write_on (pobj_name s ph)) e1 -> r = TdOk false.
Proof. exact teardown_delete_not_done. Qed.
Print Assumptions C15_teardown_delete_not_done.

(** C04 extended to mixed phase lists: the finalizer is removed, or Archived=True reported, only when every
    phase is finished — objects of local phases absent / no longer controlled (or excluded by the teardown
    preflight), phase objects of delegated phases absent or not controlled by the ObjectSet. *)
Theorem C15_teardown_waits :
  forall force sw k ns n mem0 sw' evs r,
    find_set (sw_sets sw) k ns n = Some mem0 -> is_going mem0 -> desired_keys_nodup mem0 -> phase_names_nodup mem0 ->
    os_fin mem0 = true -> os_orphan mem0 = false ->
    objectset_pass force sw k ns n = (sw', evs, r) ->
    ((exists ok, In (SMeta (MFinalizer false ok)) evs) \/
     (exists rev0 conds ctrlof rem fph ok, In (SMeta (MStatus rev0 conds ctrlof rem fph ok)) evs /\ cond_true conds CArchived = true)) ->
    forall q, In q (os_phases mem0) -> phase_gone sw' mem0 (as_owner mem0) q.
Proof. exact teardown_waits. Qed.
Print Assumptions C15_teardown_waits.

(** ... and within a teardown pass a request writes to a phase only if every LATER phase is already finished. *)
Theorem C15_teardown_order_mixed :
  forall force sw k ns n mem0 sw' evs r,
    find_set (sw_sets sw) k ns n = Some mem0 -> is_going mem0 -> desired_keys_nodup mem0 -> phase_names_nodup mem0 ->
    objectset_pass force sw k ns n = (sw', evs, r) ->
    forall pre ph post, os_phases mem0 = pre ++ ph :: post ->
      Exists (touches mem0 (as_owner mem0) ph) evs ->
      forall q, In q post -> phase_gone sw' mem0 (as_owner mem0) q.
Proof. exact teardown_order_mixed. Qed.
Print Assumptions C15_teardown_order_mixed.

(** ** Delegation preserves behaviour *)

(** One pass of an ObjectSetPhase controller on a phase object of its class is exactly one run of the shared
    phase reconciler of its flavour, with the phase object as owner: ReconcilePhase while the object is not
    being deleted, TeardownPhase (unless orphaned) once it is. *)
Theorem C15_phase_pass_is_phase_reconciler :
  forall f force cls sw kind ns name p sw' evs r,
    find_phase (sw_phases sw) kind ns name = Some p -> op_class p = cls ->
    objectsetphase_pass f force cls sw kind ns name = (sw', evs, r) ->
    sw_sets sw' = sw_sets sw /\
    if op_deleting p then
      exists w1 td,
        (if op_fin p then if op_orphan p then (sw_w sw, [], TdOk true)
                          else teardown_phase {| c_flavor := f; c_force := force |} (fun w => w) (sw_w sw) (phase_owner p) (op_objects p)
         else (sw_w sw, [], TdOk true)) = (w1, member_evs evs, td) /\ w_store (sw_w sw') = w_store w1
    else
      (exists ok, evs = [SPhase (PFinalizer name true ok)] /\ ok = false /\ w_store (sw_w sw') = w_store (sw_w sw)) \/
      exists w0 w1 pr,
        w_store w0 = w_store (sw_w sw) /\
        reconcile_phase {| c_flavor := f; c_force := force |} (fun w => w) w0 (phase_owner p) (lookup_prev_p (sw_sets sw) p) false (op_objects p) = (w1, member_evs evs, pr) /\
        w_store (sw_w sw') = w_store w1.
Proof. exact phase_pass_is_phase_reconciler. Qed.
Print Assumptions C15_phase_pass_is_phase_reconciler.

(** delegated_equiv. "The same as an in-process phase" means: for a phase object that carries phase [ph] of
    ObjectSet [s], one pass of the same-cluster controller of the built-in class produces exactly the member
    requests and member store of the very functions the ObjectSet's own loop runs for a local phase —
    [reconcile_phase] / [teardown_phase] with the ObjectSet controller's configuration (native owner
    references, same force flag, same preflight checks), the ObjectSet's revision, paused flag, package label,
    previous revisions incl. their remote phases, and the phase's objects — applied to the owner record whose
    identity is the phase object instead of the ObjectSet ([with_id]). That identity is the only difference. *)
Theorem C15_delegated_equiv :
  forall force sw s ph p kind ns name sw' evs r,
    set_kind_wf s -> carries s ph p ->
    find_phase (sw_phases sw) kind ns name = Some p -> op_class p = 1 ->
    objectsetphase_pass FSamePhase force 1 sw kind ns name = (sw', evs, r) ->
    sw_sets sw' = sw_sets sw /\
    if op_deleting p then
      exists w1 td,
        (if op_fin p then if op_orphan p then (sw_w sw, [], TdOk true)
                          else teardown_phase {| c_flavor := FObjectSet; c_force := force |} (fun w => w) (sw_w sw)
                                 (with_id (as_owner s) (op_id p)) (ph_objects ph)
         else (sw_w sw, [], TdOk true)) = (w1, member_evs evs, td) /\ w_store (sw_w sw') = w_store w1
    else
      (evs = [SPhase (PFinalizer name true false)] /\ w_store (sw_w sw') = w_store (sw_w sw)) \/
      exists w0 w1 pr,
        w_store w0 = w_store (sw_w sw) /\
        reconcile_phase {| c_flavor := FObjectSet; c_force := force |} (fun w => w) w0 (with_id (as_owner s) (op_id p))
          (lookup_prev (sw_sets sw) s) false (ph_objects ph) = (w1, member_evs evs, pr) /\
        w_store (sw_w sw') = w_store w1.
Proof. exact delegated_equiv. Qed.
Print Assumptions C15_delegated_equiv.

(** The owner identity is a name: exchange the ObjectSet's and the phase object's identities (kind and name,
    uid) in every owner reference of the member store; the run with the phase object as owner in the exchanged
    store is the run with the ObjectSet as owner in the original store — same requests on the same keys in the
    same order, same outcomes, same resulting objects — up to that exchange ([fw], [fe], [fphres] apply it to
    the store, the requests and the returned objects). The previous revisions and their remote phases are other
    objects than the two ([prev_fresh]). With [C15_delegated_equiv]: what the phase controller does for a
    delegated phase is, up to the name of the owner, what the ObjectSet would do for that phase in-process. *)
Theorem C15_delegated_equiv_renamed :
  forall force s ph p w prev,
    carries s ph p -> prev_fresh (os_id s) (op_id p) prev ->
    let sw := swap_ref (os_id s) (op_id p) in
    reconcile_phase {| c_flavor := FObjectSet; c_force := force |} (fun w => w) (fw sw w) (with_id (as_owner s) (op_id p)) prev false (ph_objects ph) =
    let '(w', evs, r) := reconcile_phase {| c_flavor := FObjectSet; c_force := force |} (fun w => w) w (as_owner s) prev false (ph_objects ph) in
    (fw sw w', map (fe sw) evs, fphres sw r).
Proof. exact delegated_equiv_renamed. Qed.
Print Assumptions C15_delegated_equiv_renamed.

Theorem C15_delegated_teardown_renamed :
  forall force s ph p w,
    carries s ph p ->
    let sw := swap_ref (os_id s) (op_id p) in
    teardown_phase {| c_flavor := FObjectSet; c_force := force |} (fun w => w) (fw sw w) (with_id (as_owner s) (op_id p)) (ph_objects ph) =
    let '(w', evs, r) := teardown_phase {| c_flavor := FObjectSet; c_force := force |} (fun w => w) w (as_owner s) (ph_objects ph) in
    (fw sw w', map (fe sw) evs, r).
Proof. exact delegated_teardown_renamed. Qed.
Print Assumptions C15_delegated_teardown_renamed.

(** The two flavours agree on one and the same owner record (up to the order of listed preflight violations). *)
Theorem C15_flavor_same_reconcile :
  forall force between w ow prev ps,
    match reconcile_phase {| c_flavor := FObjectSet; c_force := force |} between w ow prev false ps with
    | (w', evs, PhPreflight vs) =>
        w' = w /\ evs = [] /\ vs <> [] /\
        exists vs', vs' <> [] /\ reconcile_phase {| c_flavor := FSamePhase; c_force := force |} between w ow prev false ps = (w, [], PhPreflight vs')
    | res => reconcile_phase {| c_flavor := FSamePhase; c_force := force |} between w ow prev false ps = res
    end.
Proof. exact flavor_same_reconcile. Qed.
Print Assumptions C15_flavor_same_reconcile.

Theorem C15_flavor_same_teardown :
  forall force between ow ps w,
    teardown_phase {| c_flavor := FSamePhase; c_force := force |} between w ow ps =
    teardown_phase {| c_flavor := FObjectSet; c_force := force |} between w ow ps.
Proof. exact flavor_same_teardown. Qed.
Print Assumptions C15_flavor_same_teardown.

(** The class filter. *)
Theorem C15_class_filter :
  forall f force cls sw kind ns name p,
    find_phase (sw_phases sw) kind ns name = Some p -> op_class p <> cls ->
    objectsetphase_pass f force cls sw kind ns name = (sw, [], SNothing).
Proof. exact class_filter. Qed.
Print Assumptions C15_class_filter.

(** ** Adoption looks through remote phases in both directions, for both owner strategies *)

(** delegated -> local: objects controlled by the phase object of the previous revision's delegated phase
    (recorded in its status.remotePhases) count as controlled by a previous revision for the next revision's own
    phase reconciler. *)
Theorem C15_adoption_delegated_to_local :
  forall st sets prevset,
    find_set sets (oi_kind (os_id prevset)) (oi_ns (os_id prevset)) (oi_name (os_id prevset)) = Some prevset ->
    forall next po o,
      oi_kind (os_id next) = oi_kind (os_id prevset) -> oi_ns (os_id next) = oi_ns (os_id prevset) ->
      In (oi_name (os_id prevset)) (os_prev next) ->
      oi_kind (op_id po) = phase_kind prevset ->
      In (oi_name (op_id po), oi_uid (op_id po)) (os_remotes prevset) ->
      is_controller st (op_id po) o = true ->
      controlled_by_previous st o (lookup_prev sets next) = true.
Proof. exact adoption_delegated_to_local. Qed.
Print Assumptions C15_adoption_delegated_to_local.

(** local -> delegated: objects controlled by the previous revision itself count as controlled by a previous
    revision for the controller of the next revision's phase object. *)
Theorem C15_adoption_local_to_delegated :
  forall st sets prevset,
    find_set sets (oi_kind (os_id prevset)) (oi_ns (os_id prevset)) (oi_name (os_id prevset)) = Some prevset ->
    forall next ph pnext o,
      set_kind_wf next -> carries next ph pnext ->
      oi_kind (os_id next) = oi_kind (os_id prevset) -> oi_ns (os_id next) = oi_ns (os_id prevset) ->
      In (oi_name (os_id prevset)) (os_prev next) ->
      is_controller st (os_id prevset) o = true ->
      controlled_by_previous st o (lookup_prev_p sets pnext) = true.
Proof. exact adoption_local_to_delegated. Qed.
Print Assumptions C15_adoption_local_to_delegated.

(** delegated -> delegated. *)
Theorem C15_adoption_delegated_to_delegated :
  forall st sets prevset,
    find_set sets (oi_kind (os_id prevset)) (oi_ns (os_id prevset)) (oi_name (os_id prevset)) = Some prevset ->
    forall next ph pnext po o,
      set_kind_wf next -> carries next ph pnext ->
      oi_kind (os_id next) = oi_kind (os_id prevset) -> oi_ns (os_id next) = oi_ns (os_id prevset) ->
      In (oi_name (os_id prevset)) (os_prev next) ->
      oi_kind (op_id po) = phase_kind prevset ->
      In (oi_name (op_id po), oi_uid (op_id po)) (os_remotes prevset) ->
      is_controller st (op_id po) o = true ->
      controlled_by_previous st o (lookup_prev_p sets pnext) = true.
Proof. exact adoption_delegated_to_delegated. Qed.
Print Assumptions C15_adoption_delegated_to_delegated.

(** The decision: under any collision protection, an object with a lower recorded revision that is controlled
    through one of these routes is adopted, whichever of ObjectSet / phase object acts. *)
Theorem C15_adoption_decision :
  forall st force ow prev o r,
    controlled_by_previous st o prev = true -> is_controller st (ow_id ow) o = false ->
    obj_revision o = Some r -> (r < ow_rev ow)%Z ->
    forall cp, check_adoption st force ow o prev cp = Adopt.
Proof. exact adoption_decision_through_previous. Qed.
Print Assumptions C15_adoption_decision.

(** ** The relay reads the ObjectSet's own phase object *)

(** The step: only a phase object whose controller reference names this ObjectSet is recorded in
    status.remotePhases, pause-patched and relayed; any other object found under the name is an error that leaves
    the world and the recorded remote phases untouched. *)
Theorem C15_relay_own_step :
  forall sw s ph rem sw1 e1 rem1 r,
    remote_reconcile sw s ph rem = (sw1, e1, rem1, r) ->
    match r with
    | RRErr => rem1 = rem /\ Forall (fun e => match e with SPhase (PPause _ _ _) => False | _ => True end) e1
    | RROk active failed =>
        exists cur, phase_obj_of sw1 s ph = Some cur /\ relay cur = RROk active failed /\
          phase_read e1 (pobj_name s ph) cur /\
          controlled_by_uid (op_owners cur) (oi_uid (os_id s)) = true /\
          rem1 = add_remote rem (pobj_name s ph, oi_uid (op_id cur))
    end.
Proof. exact relay_own_step. Qed.
Print Assumptions C15_relay_own_step.

Theorem C15_relay_foreign_is_error :
  forall sw s ph rem cur,
    phase_obj_of sw s ph = Some cur -> controlled_by_uid (op_owners cur) (oi_uid (os_id s)) = false ->
    remote_reconcile sw s ph rem = (sw, [SPhase (PGet (pobj_name s ph) (Some cur))], rem, RRErr).
Proof. exact relay_foreign_is_error. Qed.
Print Assumptions C15_relay_foreign_is_error.

(** relay_own, the full clause: in any status request of an active pass that newly reports Available=True,
    every delegated phase was relayed from a phase object read in this pass that this ObjectSet controls and that
    is Available for its own generation; every controllerOf entry was seen controlled by the ObjectSet itself or
    is reported by such a phase object; every status.remotePhases entry is the stored one or names such a phase
    object with its uid. No hypothesis on names or on who created the phase object. *)
Theorem C15_relay_own :
  forall force sw k ns n mem0 sw' evs r rev conds ctrlof rem fph ok cd,
    find_set (sw_sets sw) k ns n = Some mem0 -> is_active mem0 ->
    objectset_pass force sw k ns n = (sw', evs, r) ->
    In (SMeta (MStatus rev conds ctrlof rem fph ok)) evs ->
    find_cond conds CAvailable = Some cd -> cd_status cd = STrue ->
    find_cond (os_conds mem0) CAvailable <> Some cd ->
    (forall q, In q (delegated_phases mem0) -> exists cur, own_phase_read mem0 evs q cur /\ avail_current cur) /\
    (forall key, In key ctrlof -> seen_controlled (sw_w sw') (as_owner mem0) key \/ reported_by_phase mem0 (os_phases mem0) evs key) /\
    (forall x, In x rem -> In x (os_remotes mem0) \/
       exists q cur, In q (os_phases mem0) /\ ph_class q = true /\ own_phase_read mem0 evs q cur /\ x = (pobj_name mem0 q, oi_uid (op_id cur))).
Proof. exact relay_own. Qed.
Print Assumptions C15_relay_own.

(** For every outcome of the loop (also when a later phase fails or errors and the status is written by the error
    path): every remote phase reference gathered comes from a phase object this ObjectSet controls. *)
Theorem C15_relay_own_loop :
  forall force s ow prev phs sw acc rem sw' evs rem' r,
    reconcile_phases_m force sw s ow prev phs acc rem = (sw', evs, rem', r) ->
    forall x, In x rem' -> In x rem \/
      exists q cur, In q phs /\ ph_class q = true /\ own_phase_read s evs q cur /\ x = (pobj_name s q, oi_uid (op_id cur)).
Proof. exact relay_own_loop. Qed.
Print Assumptions C15_relay_own_loop.

(** Historical (repaired by /repo commit a940846, finding F-C15): before that commit remotePhase.Reconcile took
    whatever ObjectSetPhase existed under <objectset>-<phase>. ObjectSet "n3" with phase "p2-p5" and ObjectSet
    "n3-p2" with phase "p5" name the same phase object; the old shape [remote_reconcile_v0] relays "available",
    controllerOf and uid of the other ObjectSet's phase object, the repaired one answers with an error and records
    nothing. Replay on the real controllers: checks/dlglib.py scenario_clash. *)
Theorem C15_relay_own_v0_refuted :
  exists sw s ph sw1 e1 rem1 active cur,
    In s (sw_sets sw) /\ In ph (os_phases s) /\ ph_class ph = true /\
    remote_reconcile_v0 sw s ph [] = (sw1, e1, rem1, RROk active false) /\
    phase_read e1 (pobj_name s ph) cur /\ active = op_ctrlof cur /\ active <> [] /\
    rem1 = [(pobj_name s ph, oi_uid (op_id cur))] /\
    controlled_by_uid (op_owners cur) (oi_uid (os_id s)) = false /\ op_objects cur <> ph_objects ph /\
    remote_reconcile sw s ph [] = (sw, e1, [], RRErr).
Proof. exact relay_own_v0_refuted. Qed.
Print Assumptions C15_relay_own_v0_refuted.

(** The repair changes nothing where the phase object is absent or controlled by the ObjectSet. *)
Theorem C15_remote_reconcile_v0_agrees :
  forall sw s ph rem,
    match phase_obj_of sw s ph with
    | None => True
    | Some cur => controlled_by_uid (op_owners cur) (oi_uid (os_id s)) = true
    end ->
    remote_reconcile sw s ph rem = remote_reconcile_v0 sw s ph rem.
Proof. exact remote_reconcile_v0_agrees. Qed.
Print Assumptions C15_remote_reconcile_v0_agrees.

(** ** The hypotheses are satisfiable *)

(** A rollout: the ObjectSet creates the phase object of its delegated phase 1 (carrying it), the phase
    controller rolls phase 1 out and reports Available for generation 1, the ObjectSet relays that, rolls out the
    local phase 2 and reports Available=True; then deletion: phase 2 is torn down first, the phase object is
    deleted and waited for, the phase controller tears phase 1 down, and only then the finalizer goes. *)
Example C15_nonvacuous :
  (exists p, In (SPhase (PCreate (join_name 10 1) (Some p))) (ex_evs (ex_set_pass ex_world0))) /\
  snd (ex_set_pass ex_world0) = SError /\
  member_evs (ex_evs (ex_phase_pass ex_world1)) <> [] /\
  (exists cd, find_cond (match sw_sets ex_world3 with s :: _ => os_conds s | [] => [] end) CAvailable = Some cd /\ cd_status cd = STrue) /\
  length (w_store (sw_w ex_world3)) = 2%nat /\
  length (member_evs (ex_evs (ex_set_pass (ex_mark_deleting ex_world3)))) = 1%nat /\
  In (SPhase (PDelete (join_name 10 1) DOk)) (ex_evs (ex_set_pass ex_world4)) /\
  length (sw_phases ex_world6) = 1%nat /\ sw_phases ex_world7 = [] /\
  In (SMeta (MFinalizer false true)) (ex_evs ex_world8) /\ w_store (sw_w (ex_w ex_world8)) = [] /\ sw_sets (ex_w ex_world8) = [].
Proof. vm_compute. repeat split; try discriminate; eauto 6. Qed.

(** [prev_fresh] is satisfiable with a previous revision that has a remote phase of its own. *)
Example C15_prev_fresh_nonvacuous :
  prev_fresh (os_id ex_set) {| oi_kind := KObjectSetPhase; oi_ns := 1; oi_name := join_name 10 1; oi_uid := 60 |}
    [{| pv_id := {| oi_kind := KObjectSet; oi_ns := 1; oi_name := 9; oi_uid := 90 |}; pv_remotes := [(join_name 9 1, 61)] |}].
Proof.
  intros pv [<-|[]]. split; [repeat split; discriminate|]. intros rp [<-|[]]. repeat split; discriminate.
Qed.
