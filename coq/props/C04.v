(** C04 — Teardown runs in reverse phase order and holds the finalizer until done. Statements only. *)
From Coq Require Import List NArith ZArith Bool.
From PKO Require Import Base Owner Api Phase PhaseProofs ObjectSet ObjectSetProofs.
Import ListNotations.

(** Within a deletion/archival pass a request names an object of a phase only if every object of every
    LATER phase is, after the pass, absent or no longer controlled by the ObjectSet (or was excluded by
    the teardown preflight: foreign namespace / API gone — the explicit disjunct of [td_obj_done]). *)
Theorem C04_reverse_order :
  forall force sw k ns n mem0 sw' evs r,
    find_set (sw_sets sw) k ns n = Some mem0 -> is_going mem0 -> desired_keys_nodup mem0 ->
    objectset_pass force sw k ns n = (sw', evs, r) ->
    forall pre ph post, local_phases mem0 = pre ++ ph :: post ->
      Exists (fun e => In (ev_key e) (phase_keys (as_owner mem0) ph)) (member_evs evs) ->
      forall q p, In q post -> In p (ph_objects q) -> td_obj_done (sw_w sw') (as_owner mem0) p.
Proof. exact C04_reverse_order. Qed.
Print Assumptions C04_reverse_order.

(** The finalizer is removed, or Archived=True reported, only when no listed object is still controlled
    (orphan deletion is C05's clause). *)
Theorem C04_finalizer_held_until_done :
  forall force sw k ns n mem0 sw' evs r,
    find_set (sw_sets sw) k ns n = Some mem0 -> is_going mem0 -> desired_keys_nodup mem0 ->
    os_fin mem0 = true -> os_orphan mem0 = false ->
    objectset_pass force sw k ns n = (sw', evs, r) ->
    ((exists ok, In (SMeta (MFinalizer false ok)) evs) \/
     (exists rev0 conds ctrlof rem fph ok, In (SMeta (MStatus rev0 conds ctrlof rem fph ok)) evs /\ cond_true conds CArchived = true)) ->
    forall q p, In q (local_phases mem0) -> In p (ph_objects q) -> td_obj_done (sw_w sw') (as_owner mem0) p.
Proof. exact C04_finalizer_held_until_done. Qed.
Print Assumptions C04_finalizer_held_until_done.

(** Shape of every deletion pass: the member requests are those of the teardown of the phase list in reverse
    order (local phases through the phase reconciler, delegated phases by deleting their phase object);
    finalizer removal and Archived=True only after the teardown reported all phases done; otherwise Archived (if
    sent) is False; no Available condition is ever sent. (Restated for [teardown_of] over mixed phase lists.) *)
Theorem C04_deletion_pass_shape :
  forall force sw mem sw' evs r,
    deletion_pass force sw mem = (sw', evs, r) ->
    exists sw1 tevs td,
      teardown_of force sw mem = (sw1, tevs, td) /\ member_evs evs = member_evs tevs /\
      w_store (sw_w sw') = w_store (sw_w sw1) /\ sw_phases sw' = sw_phases sw1 /\
      (forall ok, In (SMeta (MFinalizer false ok)) evs -> td = TdOk true /\ os_fin mem = true) /\
      (forall rev0 conds ctrlof rem fph ok, In (SMeta (MStatus rev0 conds ctrlof rem fph ok)) evs ->
         find_cond conds CAvailable = None /\ fph = None /\ os_life mem = LArchived /\
         (cond_true conds CArchived = true -> td = TdOk true /\ ctrlof = [])) /\
      (forall added ok, In (SMeta (MFinalizer added ok)) evs -> added = false).
Proof. exact deletion_pass_inv. Qed.
Print Assumptions C04_deletion_pass_shape.

(** The teardown loop, for any reversed phase list with distinct keys. *)
Theorem C04_teardown_loop_order :
  forall force ow rphs w w' evs r,
    teardown_phases force w ow rphs = (w', evs, r) ->
    NoDup (flat_map (phase_keys ow) rphs) ->
    forall pre ph post, rphs = pre ++ ph :: post ->
      Exists (fun e => In (ev_key e) (phase_keys ow ph)) evs ->
      forall q p, In q pre -> In p (ph_objects q) -> td_obj_done w' ow p.
Proof. exact tp_order. Qed.
Print Assumptions C04_teardown_loop_order.

(** The phase-level monitor (coq/corr/PhaseMonitors.v m04p: "reported cleaned up => nothing listed is still
    controlled") accepts every teardown of the model, for the ObjectSet controllers' flavour, quiet third parties
    and distinct entries. *)
From PKOCorr Require Import PhaseCorr PhaseMonitors C05Sound PhaseMonSound.
Theorem C04_phase_monitor_sound :
  forall c : pcase, pc_flavor c = FObjectSet -> Util.is_nil (pc_between c) = true ->
    NoDup (map (desired_key (pc_owner c)) (pc_objects c)) -> m04p (set_obs c (model_run c)) = true.
Proof. exact m04p_objectset_sound. Qed.
Print Assumptions C04_phase_monitor_sound.

(** The controller-level monitor m04 (coq/corr/SetMonitors.v: reverse order over the local phases; finalizer removed /
    Archived=True only when every listed object is gone or released; until then the finalizer stays and an archived
    set reports Archived=False; nothing deleted under orphan propagation) accepts every pass of the model. *)
From PKOCorr Require Import SetCorr SetMonitors SetMonSound SetMonSound2.
Theorem C04_set_monitor_sound : forall c : scase, m04 (set_obs_s c (SetCorr.model_run c)) = true.
Proof. exact m04_sound. Qed.
Print Assumptions C04_set_monitor_sound.

(** The delegated part of the C04 / C05 check (m04d = C15Corr.m_teardown: nothing deleted under orphan propagation; a
    phase object deleted only after it was read and found controlled; a write to phase j only after every later
    delegated phase was seen gone; finalizer removal / Archived=True only after every delegated phase was seen gone).
    REFUTED as an acceptance claim over all cases: unlike m04, this monitor is not guarded by the distinctness of the
    listed keys, and it attributes a member request to the FIRST local phase naming the key; on [x_dupkey_del_case] (the
    same ConfigMap in phases 1 and 3, a delegated phase in between) it raises a false alarm on the model itself. *)
Theorem C04_set_monitor_delegated_refuted :
  exists c : scase, going_keys_nodup c = false /\ m04d (set_obs_s c (SetCorr.model_run c)) = false.
Proof. exact m04d_refuted. Qed.
Print Assumptions C04_set_monitor_delegated_refuted.

(** Partial (excluded: ObjectSets being deleted / archived, with distinct phase-object names, in which two DIFFERENT local
    phases list the same object identity - weaker than the guard m04 itself carries, which also excludes a repetition
    within one phase): otherwise the monitor accepts every pass of the model. *)
Theorem C04_set_monitor_delegated_sound_partial :
  forall c : scase, going_keys_nodup c = true -> m04d (set_obs_s c (SetCorr.model_run c)) = true.
Proof. exact m04d_sound_partial. Qed.
Print Assumptions C04_set_monitor_delegated_sound_partial.

Example C04_set_monitor_delegated_hypothesis_satisfiable :
  going_keys_nodup x_del_case = true /\
  map ev_key (members (set_obs_s x_del_case (SetCorr.model_run x_del_case))) = [x_key 1 1].
Proof. exact m04d_hypothesis_satisfiable. Qed.
Print Assumptions C04_set_monitor_delegated_hypothesis_satisfiable.

(** The invariant the teardown clauses rest on (SetJudges.m04f): an active ObjectSet that does not carry the cached
    finalizer issues no member or phase-object write unless the first request of the pass is the successful finalizer
    patch - so whatever the ObjectSet may control, it controls while holding the finalizer. The clause accepts every
    pass of the model; with it the whole monitor half of the judge C04 evaluates does. *)
From PKOCorr Require Import SetJudges.
Theorem C04_finalizer_before_writes_sound : forall c : scase, m04f (set_obs_s c (SetCorr.model_run c)) = true.
Proof. exact m04f_sound. Qed.
Print Assumptions C04_finalizer_before_writes_sound.

Theorem C04_judge_sound : forall c : scase, snd (judge04g (set_obs_s c (SetCorr.model_run c))) = true.
Proof. exact judge04g_sound. Qed.
Print Assumptions C04_judge_sound.
