(** C08 — Rollouts never archive or delete what is still serving; and the deployment half of C09. Statements only. *)
From Coq Require Import List NArith ZArith Bool.
Local Open Scope N_scope.
From PKO Require Import Base Owner Api Phase ObjectSet Deployment DeploymentProofs.
From PKOCorr Require Import DeployCorr C08Corr.
Import ListNotations.

(** [dep_pass] / [to_archive] are the code as it is (the archive reconciler reads the ObjectSlices the next newer
    revision references, commit f07b836); the getter as it was before is kept as [dep_pass_v0] / [to_archive_v0] with a
    [_v0_refuted] theorem only. *)

(** The archive decision (objectSetsToBeArchived) for EVERY chain of revisions of any length with any flags, whatever
    requests were made before and whichever fault is injected: a revision is named only if it has confirmed it is
    paused, is not archived, is not the newest, and a newer revision is Available or it is itself unavailable, has
    reported controllerOf and controls nothing the next newer revision contains (inline or in its ObjectSlices, all of
    which were read); [p_dead st' = false]: no request of the walk failed. *)
Theorem C08_archive_kernel :
  forall fault slices L st mem st' mem' l,
    to_archive fault slices st mem (rev L) = (st', mem', l) -> p_dead st' = false ->
    forall n, In n l -> archivable (full_objects slices) (refs_known slices) L n.
Proof. exact archive_kernel_now. Qed.
Print Assumptions C08_archive_kernel.

(** Every SetArchived of a pass, in terms of the ObjectSets as listed before the pass. *)
Theorem C08_archive_sound :
  forall hash fault slices stale w w' evs r n pbp ur,
    NoDup (map sname (dw_sets w)) -> dep_pass hash fault slices stale w = (w', evs, r) ->
    In (DUpdate n LArchived pbp ur) evs -> archivable (full_objects slices) (refs_known slices) (listed stale w) n.
Proof. exact archive_sound_now. Qed.
Print Assumptions C08_archive_sound.

(** A referenced ObjectSlice that cannot be read (NotFound, or any other error) fails the walk: the pass ends with an
    error, and (C08_archive_sound) nothing is archived on the strength of an unread slice. *)
Theorem C08_unreadable_slice_fails :
  forall fault slices st cur, ~ refs_known slices cur -> p_dead (load_slices_req fault slices st cur) = true.
Proof. exact unreadable_slice_fails. Qed.
Print Assumptions C08_unreadable_slice_fails.

(** Second half of F-C14, fixed by /repo commit f07b836: the getter as it was looked at the inline objects of the next
    newer revision only, so the rule held for those ... *)
Theorem C08_archive_sound_v0_partial :
  forall hash fault slices stale w w' evs r n pbp ur,
    NoDup (map sname (dw_sets w)) -> dep_pass_v0 hash fault slices stale w = (w', evs, r) ->
    In (DUpdate n LArchived pbp ur) evs -> archivable set_objects (fun _ => True) (listed stale w) n.
Proof. exact archive_sound_v0_inline. Qed.
Print Assumptions C08_archive_sound_v0_partial.

(** ... and was violated when the next newer revision kept the shared object in an ObjectSlice. *)
Theorem C08_archive_sound_v0_refuted :
  exists w slices evs w' r n pbp r1 r2 k,
    dep_pass_v0 wit_hash None slices false w = (w', evs, r) /\ In (DUpdate n LArchived pbp WOk) evs /\
    listed false w = [r1; r2] /\ sname r1 = n /\ In k (os_ctrlof (ds_set r1)) /\ In k (full_objects slices r2) /\
    is_available r2 = false /\ ~ archivable (full_objects slices) (fun _ => True) (listed false w) n.
Proof. exact archive_sound_v0_refuted. Qed.
Print Assumptions C08_archive_sound_v0_refuted.

(** Without slice references in the chain both shapes of the archive decision coincide. *)
Theorem C08_archive_v0_agrees :
  forall fault slices rl st mem,
    (forall s, In s rl -> slice_refs s = []) -> to_archive fault slices st mem rl = to_archive_v0 fault slices st mem rl.
Proof. exact to_archive_v0_agrees. Qed.
Print Assumptions C08_archive_v0_agrees.

(** The newest revision is never archived ... *)
Theorem C08_newest_never :
  forall hash fault slices stale w w' evs r n pbp ur,
    NoDup (map sname (dw_sets w)) -> dep_pass hash fault slices stale w = (w', evs, r) ->
    In (DUpdate n LArchived pbp ur) evs -> exists l0 newest, listed stale w = l0 ++ [newest] /\ sname newest <> n.
Proof. exact (fun hash fault slices => newest_never_archived hash fault slices true true). Qed.
Print Assumptions C08_newest_never.

(** ... and history pruning deletes only among the first max(0, |previous| - limit) previous revisions in ascending
    revision order, for every limit; never the current one. *)
Theorem C08_gc :
  forall hash fault slices stale w w' evs r n dr,
    NoDup (map sname (dw_sets w)) -> dep_pass hash fault slices stale w = (w', evs, r) -> In (DDelete n dr) evs ->
    exists l0 newest, listed stale w = l0 ++ [newest] /\
      In n (firstn (Z.to_nat (Z.of_nat (length l0) - match d_limit (dw_dep w) with Some l => l | None => 10 end)) (map sname l0)) /\
      sname newest <> n.
Proof. exact (fun hash fault slices => gc_sound hash fault slices true true). Qed.
Print Assumptions C08_gc.

(** One pruning round without faults deletes exactly these, oldest first. *)
Theorem C08_gc_exact :
  forall st d prevnames, p_dead st = false ->
    exists es, p_evs (gc None st d prevnames) = p_evs st ++ es /\
      Forall2 (fun n e => exists dr, e = DDelete n dr /\ (dr = DlOk \/ dr = DlNotFound))
              (firstn (Z.to_nat (Z.of_nat (length prevnames) - match d_limit d with Some l => l | None => 10 end)) prevnames) es.
Proof. exact gc_exact. Qed.
Print Assumptions C08_gc_exact.

(** Every request of a pass is justified by the world before it (creates, pause/unpause, pause for archival,
    archival, pruning deletes, status). *)
Theorem C08_every_request_justified :
  forall hash fault slices stale w w' evs r,
    NoDup (map sname (dw_sets w)) -> dep_pass hash fault slices stale w = (w', evs, r) ->
    Forall (justified hash slices true stale w) evs.
Proof. exact (fun hash fault slices => dep_pass_justified hash fault slices true true). Qed.
Print Assumptions C08_every_request_justified.

(** The deployment controller never touches a member object; ObjectSets keep name, revision, previous list, labels,
    hash annotation, controller and spec; only ObjectSets named in a pruning delete disappear. *)
Theorem C08_pass_frame :
  forall hash fault slices stale w w' evs r,
    dep_pass hash fault slices stale w = (w', evs, r) ->
    (NoDup (map sname (dw_sets w)) -> NoDup (map sname (dw_sets w'))) /\
    (forall x', In x' (dw_sets w') -> (exists x, In x (dw_sets w) /\ sid x' = sid x) \/ created evs x') /\
    (forall x, In x (dw_sets w) -> (forall dr, ~ In (DDelete (sname x) dr) evs) ->
               exists x', In x' (dw_sets w') /\ sid x' = sid x /\ os_deleting (ds_set x') = os_deleting (ds_set x)) /\
    (forall n phs prev h cr, In (DCreate n phs prev h cr) evs -> (cr = CrOk \/ cr = CrLost) -> (forall dr, ~ In (DDelete n dr) evs) ->
               exists x', In x' (dw_sets w') /\ sname x' = n /\ created evs x' /\ os_deleting (ds_set x') = false) /\
    w_store (dw_w w') = w_store (dw_w w) /\
    (d_id (dw_dep w') = d_id (dw_dep w) /\ d_gen (dw_dep w') = d_gen (dw_dep w) /\ d_paused (dw_dep w') = d_paused (dw_dep w) /\
     d_digest (dw_dep w') = d_digest (dw_dep w) /\ d_phases (dw_dep w') = d_phases (dw_dep w) /\ d_limit (dw_dep w') = d_limit (dw_dep w) /\
     (d_cc (dw_dep w') = d_cc (dw_dep w) \/ exists h cs rv co sr, In (DStatus h (d_cc (dw_dep w')) cs rv co sr) evs)).
Proof. exact (fun hash fault slices => dep_pass_frame hash fault slices true true). Qed.
Print Assumptions C08_pass_frame.

(** Handover, system level, PARTIAL: a pass of the ObjectSet controller for a revision that is archived (or deleted)
    leaves every member object alone that the revision neither controls nor owns at that moment. Together with
    C08_archive_sound (r is archived only if a newer revision is Available, i.e. has adopted its objects, or r's
    reported controllerOf is disjoint from the next newer revision's objects) this gives "an object present in both
    revisions is not deleted during the handover" for objects the incoming revision has adopted.
    Missing for the full clause: the invariant tying r's stored controllerOf to the objects r actually controls when
    it is torn down (r's last paused pass computed controllerOf from the cache, and a paused r acquires no object,
    C09_paused_hands_off); it is checked on whole-system runs of the real controllers instead (C08Corr.m08_shared). *)
Theorem C08_handover_partial :
  forall force hash slices w n mem k o,
    find_set (sw_sets (to_sworld w)) (set_kind w) (oi_ns (d_id (dw_dep w))) n = Some mem ->
    (os_deleting mem = true \/ os_life mem = LArchived) ->
    lookup k (w_store (dw_w w)) = Some o ->
    is_owner Native (os_id mem) o = false -> is_controller Native (os_id mem) o = false ->
    lookup k (w_store (dw_w (do_step hash slices w (SSet force n)))) = Some o.
Proof. exact (fun force hash slices => going_pass_foreign force hash slices true true). Qed.
Print Assumptions C08_handover_partial.

(** C09, deployment level: a paused deployment only pauses non-archived revisions that are not paused by it yet and
    writes its status: no create, no archival, no delete, no collision bump ... *)
Theorem C09_deployment_paused :
  forall hash fault slices stale w w' evs r e,
    NoDup (map sname (dw_sets w)) -> dep_pass hash fault slices stale w = (w', evs, r) ->
    d_paused (dw_dep w) = true -> In e evs ->
    (exists n ur s, e = DUpdate n LPaused true ur /\ In s (listed stale w) /\ sname s = n /\ is_archived s = false /\ paused_by_parent s = false) \/
    (exists h cc cs rv co sr, e = DStatus h cc cs rv co sr /\ cc = d_cc (dw_dep w)).
Proof. exact (fun hash fault slices => paused_hands_off hash fault slices true true). Qed.
Print Assumptions C09_deployment_paused.

(** ... exactly those, in list order, when no request fails and every revision has reported its number. *)
Theorem C09_deployment_paused_exact :
  forall hash slices stale w w' evs r,
    NoDup (map sname (dw_sets w)) -> d_paused (dw_dep w) = true -> has_rev0 (listed stale w) = false ->
    dep_pass hash None slices stale w = (w', evs, r) ->
    r = DpDone /\ exists h cc cs rv co,
      evs = map (pause_update true) (filter (needs_pause_update true) (listed stale w)) ++ [DStatus h cc cs rv co WOk].
Proof. exact (fun hash slices => paused_pass_exact hash slices true true). Qed.
Print Assumptions C09_deployment_paused_exact.

(** Unpausing releases exactly the non-archived revisions that are paused and carry the paused-by-parent annotation. *)
Theorem C09_unpause_sound :
  forall hash fault slices stale w w' evs r n pbp ur,
    NoDup (map sname (dw_sets w)) -> dep_pass hash fault slices stale w = (w', evs, r) ->
    In (DUpdate n LActive pbp ur) evs ->
    d_paused (dw_dep w) = false /\ pbp = false /\
    exists s, In s (listed stale w) /\ sname s = n /\ is_archived s = false /\ is_spec_paused s = true /\ ds_pbp s = true.
Proof. exact (fun hash fault slices => unpause_releases_annotated hash fault slices true true). Qed.
Print Assumptions C09_unpause_sound.

Theorem C09_unpause_exact :
  forall hash slices stale w w' evs r,
    NoDup (map sname (dw_sets w)) -> d_paused (dw_dep w) = false -> has_rev0 (listed stale w) = false ->
    dep_pass hash None slices stale w = (w', evs, r) ->
    exists rest, evs = map (pause_update false) (filter (needs_pause_update false) (listed stale w)) ++ rest /\
                 forall n life pbp ur, In (DUpdate n life pbp ur) rest -> life <> LActive.
Proof. exact (fun hash slices => unpause_exact hash slices true true). Qed.
Print Assumptions C09_unpause_exact.

(** Observation (outside the property text, which only fixes WHICH revisions pruning may delete): pruning counts
    all previous revisions, archived or not; with limit 1, archiving the broken revision 2 deletes revision 1, which is
    Available and not archived, while the current revision 3 is not Available. *)
Theorem C08_pruning_deletes_available_revision_witness :
  let '(_, evs, _) := dep_pass wit_hash None no_slices false wit_gc_world in
  existsb (fun e => match e with DDelete 100 DlOk => true | _ => false end) evs = true /\
  existsb (fun e => match e with DUpdate 200 LArchived _ WOk => true | _ => false end) evs = true.
Proof. exact wit_gc_deletes_available. Qed.
Print Assumptions C08_pruning_deletes_available_revision_witness.

(** The archive and pruning monitors of the correspondence check accept every pass of the model (fresh List). *)
Theorem C08_monitor_sound_archive :
  forall hash fault slices w w' evs r,
    NoDup (map sname (dw_sets w)) -> dep_pass hash fault slices false w = (w', evs, r) ->
    m08_archive slices (state_of w) (SDep false fault) (obs_of w' evs r) = true.
Proof. exact monitor_sound_archive. Qed.
Print Assumptions C08_monitor_sound_archive.

Theorem C08_monitor_sound_gc :
  forall hash fault slices w w' evs r,
    NoDup (map sname (dw_sets w)) -> dep_pass hash fault slices false w = (w', evs, r) ->
    m08_gc (state_of w) (SDep false fault) (obs_of w' evs r) = true.
Proof. exact monitor_sound_gc. Qed.
Print Assumptions C08_monitor_sound_gc.

(** Non-vacuity. *)
Example C08_archive_happens :
  let '(_, evs, _) := dep_pass wit_hash None no_slices false wit_gc_world in
  existsb (fun e => match e with DUpdate 200 LArchived _ WOk => true | _ => false end) evs = true.
Proof. vm_compute. reflexivity. Qed.
Print Assumptions C08_archive_happens.
Example C08_sliced_revision_not_archived :
  let '(_, evs, _) := dep_pass wit_hash None wit_slices false wit_sliced_world in
  existsb (fun e => match e with DUpdate _ LArchived _ _ => true | _ => false end) evs = false.
Proof. exact wit_sliced_archive_repaired. Qed.
Print Assumptions C08_sliced_revision_not_archived.
Example C08_names_unique : NoDup (map sname (dw_sets wit_gc_world)).
Proof. vm_compute. repeat constructor; cbn; intuition discriminate. Qed.
Print Assumptions C08_names_unique.

(** * The handover clause at system level *)
From PKO Require Import HandoverProofs.

(** The full clause is REFUTED for the code as it is, in three independent ways; each witness is a history from an empty
    cluster on which the model and the real controllers agree step by step (checks/C08.py, handover corpus) and which ends
    with the teardown of an archived revision deleting an object that the next newer revision (active, not deleted) lists.
    [handover_violation hash slices w n r nx k]: in world w the ObjectSet n = r is archived, nx is listed right after it,
    is active, lists k, k exists, and the next pass of the ObjectSet controller for n removes k. *)

(** F-C08c: status.controllerOf stops at the first phase whose probe fails (also in the paused pass that confirms Paused=True):
    ordinary passes only (fresh fault-free deployment passes, full ObjectSet passes, edits, probe inputs). *)
Theorem C08_handover_refuted_truncated :
  exists hash slices w0 h n r nx k,
    from_scratch w0 /\ forallb plain_step h = true /\
    handover_violation hash slices (run hash slices w0 h) n r nx k /\
    is_status_paused r = true /\ controls (os_id (ds_set r)) (run hash slices w0 h) k /\
    (exists o, stored (run hash slices w0 h) k = Some o /\ o_cache o = true) /\ ~ In k (os_ctrlof (ds_set r)).
Proof. exact handover_refuted_truncated. Qed.
Print Assumptions C08_handover_refuted_truncated.

(** F-C08d: single-phase outgoing revision; the teardown of an older revision removed the cache label of an object it had handed
    over, the paused pass (deployment paused) does not see the object, and the stale Paused=True is accepted after the unpause. *)
Theorem C08_handover_refuted_cache_label :
  exists hash slices w0 h n r nx k,
    from_scratch w0 /\
    handover_violation hash slices (run hash slices w0 h) n r nx k /\
    length (os_phases (ds_set r)) = 1%nat /\
    is_status_paused r = true /\ controls (os_id (ds_set r)) (run hash slices w0 h) k /\
    (exists o, stored (run hash slices w0 h) k = Some o /\ o_cache o = false) /\ ~ In k (os_ctrlof (ds_set r)).
Proof. exact handover_refuted_cache_label. Qed.
Print Assumptions C08_handover_refuted_cache_label.

(** F-C08e: single phases only, ordinary passes only, the deployment never paused, controllerOf of the outgoing revision complete:
    the archival rests on the Available report of a revision that controls nothing. *)
Theorem C08_handover_refuted_stale_available :
  exists hash slices w0 h n r nx k,
    from_scratch w0 /\ forallb plain_step h = true /\ forallb one_phase_step h = true /\
    (length (d_phases (dw_dep w0)) <= 1)%nat /\
    handover_violation hash slices (run hash slices w0 h) n r nx k /\
    is_available nx = true /\ os_ctrlof (ds_set nx) = [] /\ In k (os_ctrlof (ds_set r)).
Proof. exact handover_refuted_stale_available. Qed.
Print Assumptions C08_handover_refuted_stale_available.

(** What holds. (i) Control is gained in one way only: along any history, a step after which an ObjectSet controls an object it did not
    control before is a pass of the ObjectSet controller for an ObjectSet of that kind and name that is active (not archived, not
    deleted) and not paused. Every other step - passes of other ObjectSets (adoption, teardown), deployment passes, edits, status
    and probe changes, passes of the ObjectSet itself while paused, archived or deleted - can only shrink what it controls. *)
Theorem C08_control_gained_only_by_own_active_pass :
  forall hash slices id w s,
    ~ own_active_pass id w s -> no_gain id (dstore w) (dstore (do_step hash slices w s)).
Proof. exact (fun hash slices => step_no_gain hash slices true true). Qed.
Print Assumptions C08_control_gained_only_by_own_active_pass.

(** (ii) The handover clause, PARTIAL, relative to the archive decision. If at the deployment pass that archives revision n
    (a) no newer listed revision reports Available [excludes F-C08e: the decision then rests on controllerOf] and
    (b) the stored status.controllerOf of n lists every stored object n controls [excludes F-C08c, F-C08d],
    then, along any continuation (any steps: passes, edits, pauses, status changes, faults) in which no re-created ObjectSet of n's
    name runs an active pass, no pass of the ObjectSet controller for the archived or deleted n removes an object that the revision
    listed right after n at the decision contains, inline or in its ObjectSlices. All three hypotheses are boolean tests. *)
Theorem C08_handover_sound_partial :
  forall hash slices fault stale w w1 evs res n pbp ur r,
    NoDup (map sname (dw_sets w)) ->
    dep_pass hash fault slices stale w = (w1, evs, res) -> In (DUpdate n LArchived pbp ur) evs ->
    find_dset (dw_sets w) n = Some r ->
    no_newer_available_b (listed stale w) r = true ->
    ctrl_complete_b w r = true ->
    exists nx, next_in n (listed stale w) = Some nx /\ (srev r < srev nx)%Z /\
      forall h2, quiet_run_b hash slices (os_id (ds_set r)) w1 h2 = true ->
        let w2 := run hash slices w1 h2 in
        forall f mem k,
          find_set (sw_sets (to_sworld w2)) (set_kind w2) (oi_ns (d_id (dw_dep w2))) n = Some mem -> os_id mem = os_id (ds_set r) ->
          (os_deleting mem = true \/ os_life mem = LArchived) ->
          In k (full_objects slices nx) -> stored w2 k <> None -> stored (do_step hash slices w2 (SSet f n)) k <> None.
Proof. exact handover_sound_partial. Qed.
Print Assumptions C08_handover_sound_partial.

(** The hypotheses of (ii) are satisfiable by a history from an empty cluster in which the teardown does delete an object. *)
Example C08_handover_premises_satisfiable :
  exists w1 evs res r,
    NoDup (map sname (dw_sets ex_world)) /\
    dep_pass wit_hash None no_slices false ex_world = (w1, evs, res) /\ In (DUpdate 100 LArchived false WOk) evs /\
    find_dset (dw_sets ex_world) 100 = Some r /\
    no_newer_available_b (listed false ex_world) r = true /\ ctrl_complete_b ex_world r = true /\
    quiet_run_b wit_hash no_slices (os_id (ds_set r)) w1 ex_after = true /\
    stored (run wit_hash no_slices w1 ex_after) (hw_key 2 1) <> None /\
    stored (do_step wit_hash no_slices (run wit_hash no_slices w1 ex_after) (SSet false 100)) (hw_key 2 1) = None /\
    stored (do_step wit_hash no_slices (run wit_hash no_slices w1 ex_after) (SSet false 100)) (hw_key 2 3) <> None.
Proof. exact handover_premises_satisfiable. Qed.

(** (iii) Towards the invariant "Paused=True confirmed => status.controllerOf covers what the revision controls": REFUTED as stated
    (C08_handover_refuted_truncated, C08_handover_refuted_cache_label give reachable states with Paused=True stored, the spec
    paused or archived, and a controlled object missing from controllerOf). Proved are the two status lemmas every step of such an
    invariant rests on; the per-step preservation theorem itself (C08_paused_controllerof_invariant) is NOT proved.
    (a) A deployment pass (any fault, stale or fresh) never writes an ObjectSet's status: every ObjectSet afterwards is new (empty
    status) or an old one with identity, conditions, controllerOf, revision, phases and previous list unchanged, whose
    lifecycle state is the old one or that of an Update request of the pass. *)
Theorem C08_status_after_deployment_pass :
  forall hash fault slices stale w w' evs r,
    dep_pass hash fault slices stale w = (w', evs, r) ->
    forall x', In x' (dw_sets w') ->
      (exists x, In x (dw_sets w) /\ sstat x' = sstat x /\
                 (slife x' = slife x \/ exists pbp ur, In (DUpdate (sname x') (slife x') pbp ur) evs)) \/
      (sconds x' = [] /\ os_ctrlof (ds_set x') = []).
Proof. exact (fun hash fault slices => dep_pass_status hash fault slices true true). Qed.
Print Assumptions C08_status_after_deployment_pass.

(** (b) A pass of the ObjectSet controller (active, paused, archival or deletion) changes the stored status of its own ObjectSet
    only: Paused=True is newly written only for a paused spec, and status.controllerOf afterwards is the old list, empty, or the
    list the phase loop of this pass computed ([loop_ctrlof]: from the store as it was when the pass started). *)
Theorem C08_status_after_objectset_pass :
  forall force sw k ns n mem0 sw' evs r,
    find_set (sw_sets sw) k ns n = Some mem0 -> NoDup (map (fun y => oi_name (os_id y)) (sw_sets sw)) ->
    objectset_pass force sw k ns n = (sw', evs, r) ->
    forall y, In y (sw_sets sw') ->
      In y (sw_sets sw) \/
      (os_id y = os_id mem0 /\ os_life y = os_life mem0 /\ os_phases y = os_phases mem0 /\ os_prev y = os_prev mem0 /\
       (cond_true (os_conds y) CPaused = true -> cond_true (os_conds mem0) CPaused = true \/ os_life mem0 = LPaused) /\
       (os_ctrlof y = os_ctrlof mem0 \/ os_ctrlof y = [] \/ loop_ctrlof force sw mem0 (os_ctrlof y))).
Proof. exact status_after_pass. Qed.
Print Assumptions C08_status_after_objectset_pass.
